# C10 — TrieDict is a mapping: correspondence of the extracted model (proved to be a
# dictionary) with ural.classes.TrieDict on exhaustive and random assignment histories.
import itertools
import random

from . import common
from .common import Exc

THEOREMS = [
    "C10_get", "C10_items", "C10_keys_once", "C10_len", "C10_lmpv",
    "C10_lmpv_longest", "C10_lmpv_none", "C10_len_pinned_refuted (finding F-T1, fixed)",
]


def keys_upto(alpha, n):
    out = []
    for l in range(n + 1):
        out.extend(itertools.product(alpha, repeat=l))
    return [list(k) for k in out]


def observe_impl(ops, queries, keyform=list):
    from ural.classes import TrieDict

    t = TrieDict()
    for k, v in ops:
        t[keyform(k)] = v
    return observe(t, queries, keyform)


def first_bad_prefix(ops, queries, keyform=list):
    """The same history on ONE object observed before the first and after every assignment."""
    from ural.classes import TrieDict

    t = TrieDict()
    for i in range(len(ops) + 1):
        if i:
            k, v = ops[i - 1]
            t[keyform(k)] = v
        try:
            ci = canon_obs(observe(t, queries, keyform))
        except Exception as e:  # noqa
            ci = dict(len=Exc(type(e).__name__))
        cs = canon_obs(spec_obs(ops[:i], queries))
        if ci != cs:
            return i, ci, cs
    return None


def observe(t, queries, keyform=list):
    sentinel = object()
    gets = []
    lm = []
    for q in queries:
        qq = keyform(q)
        g = t.get(qq, sentinel)
        try:
            gi = t[qq]
            gi = [gi]
        except KeyError:
            gi = None
        g = None if g is sentinel else [g]
        if g != gi:
            g = ["get/getitem disagree", g, gi]
        gets.append(g)
        lm.append(t.longest_matching_prefix_value(qq))
    # keep the yielded objects alive until the traversal is over (a consumer may store them)
    items = [[list(k), v] for k, v in list(t.items())]
    it2 = [[list(k), v] for k, v in list(t)]
    prefixes = [list(k) for k in list(t.prefixes())]
    values = list(t.values())
    return dict(len=len(t), items=items, iter=it2, gets=gets, lmpv=lm, prefixes=prefixes, values=values)


def canon_obs(o):
    key = lambda x: repr(x)
    return dict(
        len=o["len"],
        items=sorted(o["items"], key=key),
        gets=o["gets"],
        lmpv=o["lmpv"],
        prefixes=sorted(o["prefixes"], key=key),
        values=sorted(o["values"], key=key),
    )


def model_obs(v):
    # (len items gets lmpv prefixes values); gets: ~ or (v); lmpv likewise
    ln, items, gets, lm, prefixes, values = v
    return dict(
        len=ln,
        items=[[k, x] for k, x in items],
        gets=[None if g is None else [g[0]] for g in gets],
        lmpv=[None if g is None else g[0] for g in lm],
        prefixes=prefixes,
        values=values,
    )


def spec_obs(ops, queries):
    """The property itself: a Python dict keyed by tuples."""
    d = {}
    for k, v in ops:
        d[tuple(k)] = v
    gets = []
    lm = []
    for q in queries:
        tq = tuple(q)
        gets.append([d[tq]] if tq in d else None)
        best = None
        for i in range(len(tq) + 1):
            if tq[:i] in d:
                best = d[tq[:i]]
        lm.append(best)
    items = [[list(k), v] for k, v in d.items()]
    return dict(len=len(d), items=items, gets=gets, lmpv=lm, prefixes=[list(k) for k in d], values=list(d.values()))


def run(res, tier, rng):
    alpha = ["a", "b"]
    keys = keys_upto(alpha, 3)
    values = [None, 1]
    assigns = [(k, v) for k in keys for v in values]
    queries = keys_upto(alpha, 4)
    depth = 3 if tier == "quick" else 4
    histories = []
    # corpus first: the F-T1 witness
    histories.append([([], 1)])
    if tier == "quick":
        # exhaustive to depth 2 over all 30 assignments, depth 3 over keys of length <= 2
        for l in range(0, 3):
            histories.extend([list(h) for h in itertools.product(assigns, repeat=l)])
        small = [(k, v) for k in keys_upto(alpha, 2) for v in values]
        histories.extend([list(h) for h in itertools.product(small, repeat=3)])
        nrand = 3000
    else:
        for l in range(0, 4):
            histories.extend([list(h) for h in itertools.product(assigns, repeat=l)])
        small = [(k, v) for k in keys_upto(alpha, 2) for v in values]
        histories.extend([list(h) for h in itertools.product(small, repeat=4)])
        nrand = 30000
    res.exhaustive = True
    n_exh = len(histories)
    # random longer histories, wider alphabets, str / list / tuple keys
    rand_cases = []
    wide = ["a", "b", "c", "", "ab", "é", "h:com", "p:"]
    for i in range(nrand):
        al = alpha if rng.random() < 0.3 else wide
        n = rng.randint(1, 12)
        h = []
        for _ in range(n):
            k = [rng.choice(al) for _ in range(rng.randint(0, 4))]
            v = rng.choice([None, 0, 1, 2, "x", ""])
            h.append((k, v))
        qs = [[rng.choice(al) for _ in range(rng.randint(0, 5))] for _ in range(6)] + [k for k, _ in h]
        form = rng.choice(["list", "tuple", "str"])
        if form == "str" and not all(len(t) == 1 for k, _ in h for t in k) or form == "str" and not all(len(t) == 1 for q in qs for t in q):
            form = "list"
        rand_cases.append((h, qs, form))

    reqs = []
    for h in histories:
        reqs.append(("triedict", [[[k, v] for k, v in h], queries]))
    for h, qs, form in rand_cases:
        reqs.append(("triedict", [[[k, v] for k, v in h], qs]))
    outs = common.run_driver_parallel(reqs)
    forms = {"list": list, "tuple": tuple, "str": lambda k: "".join(k)}
    cases = [(h, queries, "list") for h in histories] + rand_cases
    nontriv = set()
    for (h, qs, form), out in zip(cases, outs):
        res.evaluations += 1
        if isinstance(out, Exc) or out is None:
            res.violation("correspondence", "model returned %r" % (out,), input=dict(history=h))
            continue
        try:
            io = observe_impl(h, qs, forms[form])
        except Exception as e:  # noqa
            io = dict(len=Exc(type(e).__name__), items=[], iter=[], gets=[], lmpv=[], prefixes=[], values=[])
        ci = canon_obs(io)
        cm = canon_obs(model_obs(out)) if out is not common.NOMODEL else canon_obs(spec_obs(h, qs))
        cs = canon_obs(spec_obs(h, qs))
        if len(h) >= 2 and len(set(tuple(k) for k, _ in h)) < len(h):
            nontriv.add(repr(h))
        elif any(len(k) == 0 for k, _ in h):
            nontriv.add(repr(h))
        elif len(h) >= 2:
            nontriv.add(repr(h))
        if io.get("iter") != io.get("items") and not isinstance(io["len"], Exc):
            if sorted(map(repr, io["iter"])) != sorted(map(repr, io["items"])):
                res.violation("property", "iter(trie) differs from items()", input=dict(history=h, keyform=form), impl=io)
        if ci != cs:
            bad = [f for f in cs if ci.get(f) != cs[f]]
            if h == [([], 1)] and bad == ["len"] and ci["len"] == 0:
                pass
            res.violation("property", "TrieDict is not the dictionary of its history on: %s" % ",".join(bad),
                          input=dict(history=h, queries=qs, keyform=form),
                          impl={f: ci.get(f) for f in bad}, expected={f: cs[f] for f in bad})
        elif len(h) >= 2 and first_bad_prefix(h, qs, forms[form]) is not None:
            i, ci_i, cs_i = first_bad_prefix(h, qs, forms[form])
            bad = [f for f in cs_i if ci_i.get(f) != cs_i[f]]
            res.violation("property", "TrieDict observed between its assignments is not the dictionary of the assignments so far on: %s" % ",".join(bad),
                          input=dict(history=h[:i], queries=qs, keyform=form, observed_after_each_assignment=True),
                          impl={f: ci_i.get(f) for f in bad}, expected={f: cs_i[f] for f in bad})
        elif cm != ci:
            bad = [f for f in cm if ci.get(f) != cm[f]]
            res.violation("correspondence", "model and implementation differ on: %s" % ",".join(bad),
                          input=dict(history=h, queries=qs, keyform=form),
                          impl={f: ci.get(f) for f in bad}, model={f: cm[f] for f in bad})
        if cm != cs:
            res.violation("correspondence", "model differs from the dictionary spec (model/harness bug)",
                          input=dict(history=h, queries=qs))
    # a key longer than the interpreter's recursion limit (a long url as str key)
    for n_tok in (1500, 4000):
        hlong = [(["a"] * n_tok, 1), (["a"] * 3, 2), (["a"] * n_tok + ["b"], 3)]
        qlong = [["a"] * n_tok, ["a"] * (n_tok + 1), ["a"] * 3, ["a", "b"]]
        res.evaluations += 1
        try:
            ci = canon_obs(observe_impl(hlong, qlong, forms["str"]))
        except BaseException as e:  # noqa
            ci = dict(len=Exc(type(e).__name__))
        cs = canon_obs(spec_obs(hlong, qlong))
        if ci.get("len") != cs["len"] or ci.get("gets") != cs["gets"] or ci.get("lmpv") != cs["lmpv"] or sorted(map(repr, ci.get("values", []))) != sorted(map(repr, cs["values"])) or len(ci.get("items", [])) != len(cs["items"]):
            res.violation("property", "TrieDict with a very long key is not the dictionary of its history", input=dict(key_lengths=[n_tok, 3, n_tok + 1], keyform="str"),
                          impl={k_: (repr(v_)[:120]) for k_, v_ in ci.items() if k_ in ("len", "gets", "lmpv", "values")}, expected=dict(len=cs["len"], gets=cs["gets"], lmpv=cs["lmpv"]))
    mixed = ["a", "b", 1, 2, 2.5, None, ("t",), b"x"]
    for _ in range(600 if tier == "quick" else 10000):
        h = [([rng.choice(mixed) for _ in range(rng.randint(0, 3))], rng.choice([None, 0, 1, "x"])) for _ in range(rng.randint(1, 8))]
        qs = [[rng.choice(mixed) for _ in range(rng.randint(0, 4))] for _ in range(5)] + [k for k, _ in h]
        form = rng.choice(["list", "tuple"])
        res.evaluations += 1
        try:
            ci = canon_obs(observe_impl(h, qs, forms[form]))
        except Exception as e:  # noqa
            ci = dict(len=Exc(type(e).__name__))
        cs = canon_obs(spec_obs(h, qs))
        if ci != cs:
            bad = [f for f in cs if ci.get(f) != cs[f]]
            res.violation("property", "TrieDict with tokens of mixed types is not the dictionary of its history on: %s" % ",".join(bad),
                          input=dict(history=repr(h), queries=repr(qs), keyform=form), impl={f: repr(ci.get(f)) for f in bad}, expected={f: repr(cs[f]) for f in bad})
    res.nontrivial = nontriv
    res.rule = ("exhaustive: every assignment history of length <= %d over keys of length 0..3 on {a,b} x values {None,1} "
                "(length %d restricted to keys of length <= 2), all query methods on all 31 keys of length 0..4; "
                "then %d seeded random histories (length 1..12, wider token alphabet incl. empty and multi-char tokens, "
                "str/list/tuple keys), histories over tokens of mixed types (str, int, float, None, tuple, bytes) against the dictionary specification; every history replayed on one object observed before the first and after every assignment. Non-trivial = distinct history with >= 2 assignments or using the empty key."
                % (depth - 1 if tier == "quick" else 3, depth, nrand))
    res.extra["exhaustive_histories"] = n_exh
    res.extra["random_histories"] = nrand
    res.sample(dict(history=cases[40][0], observed=canon_obs(observe_impl(cases[40][0], queries[:5]))))
    res.sample(dict(history=rand_cases[0][0], keyform=rand_cases[0][2]))
    res.theorems = THEOREMS
