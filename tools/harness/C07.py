# C07 — hostname and LRU-stem helpers agree with the URL-level functions.
import urllib.parse as U

from . import common
from .common import Exc
from .oracle_env import env_for
from .url_grammar import gen_url, gen_host, call, wrap_redirect, wrap_junk

THEOREMS = ['C07_get_normalized_hostname', 'C07_get_fingerprinted_hostname', 'C07_surrounding_junk_irrelevant', 'C07_canonicalized_stems', 'C07_fingerprinted_stems'] + ["(main statement: harness deciders on the implementation + model correspondence — partial)"]


def run(res, tier, rng):
    from ural import (normalize_url, fingerprint_url, get_normalized_hostname, normalize_hostname, get_fingerprinted_hostname,
                      fingerprint_hostname, get_hostname, ensure_protocol)
    from ural.lru import canonicalized_lru_stems, normalized_lru_stems, fingerprinted_lru_stems, lru_stems
    from ural import canonicalize_url

    urls = ["http:/www.lemonde.fr/a", "https:/m.x.com", "https://bc.marfeelcache.com/amp/www.lemonde.fr/article/1.html", "bc.marfeel.com/m.lefigaro.fr/actu", "https://www-x-com.cdn.ampproject.org/c/s/www.x.com/a", "fr-FR.facebook.com/a", "https://WWW.Lemonde.FR:8080/x", " http://m.x.com \n", "http://r.com/?url=http%3A%2F%2Fwww.t.co.uk%2Fp", "http://xn--caf-dma.fr/", "amp-x.com"]
    hosts = ["fr-FR.facebook.com", "www.lemonde.fr", "M.X.COM", "fr.wikipedia.org", "xn--caf-dma.fr", "a.b.co.uk", "amp-x.com", "en-gb.example.co.uk", "us.x.com", "x.com", " www.x.com ", "\x00 www.lemonde.fr", " \x7fm.x.com\x00 ", "\x1b\tfr.www.x.com"]
    for _ in range(2500 if tier == "quick" else 40000):
        u = gen_url(rng)
        r = rng.random()
        if r < 0.06:
            u = " " + u + "\t"
        elif r < 0.12:
            u = wrap_junk(u, rng)
        elif r < 0.18:
            u = "http://r.com/?url=" + U.quote(u, safe="")
        elif r < 0.32:
            u = wrap_redirect(u, rng)
        urls.append(u)
    for _ in range(400 if tier == "quick" else 6000):
        h = gen_host(rng)
        hosts.append(h)
        if rng.random() < 0.3:
            urls.append(h)
    hosts = list(dict.fromkeys(hosts))
    from .C02 import colonless_protocol
    has_c10 = any(k.get("property") == "C07" and k.get("id") == "F-C10" and k.get("status") == "known" for k in common.load_known())
    hits = {}
    nontriv = set()
    for u in urls:
        res.evaluations += 1
        for amp in (True, False):
            for infer in (True, False):
                a = call(get_normalized_hostname, u, normalize_amp=amp, infer_redirection=infer)
                sp = call(normalize_url, u, unsplit=False, normalize_amp=amp, infer_redirection=infer)
                if isinstance(sp, Exc) or isinstance(sp, str) or isinstance(a, Exc):
                    continue
                b = sp.hostname
                if (a or None) != (b or None):
                    res.violation("property", "get_normalized_hostname(u) is not the host of normalize_url(u)", input=dict(url=u, normalize_amp=amp, infer_redirection=infer), impl=[a, b])
                else:
                    nontriv.add(u)
        for ss in (False, True):
            for infer in (True, False):
                a = call(get_fingerprinted_hostname, u, strip_suffix=ss, infer_redirection=infer)
                if not infer:
                    continue   # fingerprint_url always infers
                sp = call(fingerprint_url, u, unsplit=False, strip_suffix=ss)
                if isinstance(sp, Exc) or isinstance(a, Exc):
                    continue
                # a url whose host is stripped away entirely has no host: SplitResult.hostname spells that None, the helper ''
                if (a or None) != (sp.hostname or None):
                    res.violation("property", "get_fingerprinted_hostname(u) is not the host of fingerprint_url(u)", input=dict(url=u, strip_suffix=ss), impl=[a, sp.hostname])
        gh = call(get_hostname, u)
        try:
            exp = U.urlsplit(ensure_protocol(u)).hostname or None
        except ValueError:
            exp = None
        if gh != exp:
            res.violation("property", "get_hostname(u) is not the host the standard parser sees", input=dict(url=u), impl=[gh, exp])
        # stems = stems of the url-level function's result
        for sa in (False, True):
            for fn, stems_fn, strips_scheme in ((canonicalize_url, canonicalized_lru_stems, False), (normalize_url, normalized_lru_stems, True), (fingerprint_url, fingerprinted_lru_stems, True)):
                st = call(stems_fn, u, suffix_aware=sa)
                r = call(fn, u)
                if isinstance(st, Exc) or isinstance(r, Exc):
                    continue
                full = r if not strips_scheme else "http://" + r
                st2 = call(lru_stems, full, suffix_aware=sa)
                if isinstance(st2, Exc):
                    continue
                if strips_scheme:
                    st2 = [s for s in st2 if not s.startswith("s:")]
                    stc = [s for s in st if not s.startswith("s:")]
                else:
                    stc = st
                if stc != st2 and r not in ("", u) and "//" + r != "//":
                    if colonless_protocol(u) and has_c10:
                        hits.setdefault("F-C10", "a protocol without colon: %s(%r) are not the stems of the url %r the variant returns" % (stems_fn.__name__, u, r))
                        continue
                    res.violation("property", "%s(u) are not the stems of %s(u)" % (stems_fn.__name__, fn.__name__), input=dict(url=u, suffix_aware=sa), impl=[stc, st2, r])
    import re as _re
    _ctl = _re.compile("[\x00-\x1f\x7f-\x9f]")
    for h in hosts:
        res.evaluations += 1
        # the hostname as a url: on its own when it comes inside control characters (they are cleaned around a url, not
        # inside one), else with a scheme and a path
        uform = h if _ctl.search(h) else "http://" + h.strip() + "/x"
        a = call(normalize_hostname, h)
        b = call(get_normalized_hostname, uform)
        if a != b:
            res.violation("property", "normalize_hostname(h) differs from get_normalized_hostname of a url on h", input=dict(hostname=h), impl=[a, b])
        for ss in (False, True):
            a = call(fingerprint_hostname, h, strip_suffix=ss)
            b = call(get_fingerprinted_hostname, uform, strip_suffix=ss)
            sp = call(fingerprint_url, uform, strip_suffix=ss, unsplit=False)
            c = sp.hostname if not isinstance(sp, Exc) else sp
            if not ((a or None) == (b or None) == (c or None)):
                res.violation("property", "fingerprint_hostname / get_fingerprinted_hostname / fingerprint_url disagree on the host", input=dict(hostname=h, strip_suffix=ss), impl=[a, b, c])
    # model vs implementation for the helpers
    strs = (urls[:1500] if tier == "quick" else urls) + hosts
    chunks = [strs[i:i + 300] for i in range(0, len(strs), 300)]
    outs = common.run_driver_parallel([("hostnames", [env_for(*ch), ch]) for ch in chunks], jobs=12)
    for ch, out in zip(chunks, outs):
        if not isinstance(out, list):
            continue
        for u, mo in zip(ch, out):
            io = [call(get_normalized_hostname, u), call(normalize_hostname, u), call(get_fingerprinted_hostname, u), call(get_fingerprinted_hostname, u, strip_suffix=True),
                  call(fingerprint_hostname, u), call(fingerprint_hostname, u, strip_suffix=True)]
            res.evaluations += 1
            if isinstance(mo, list) and Exc("OracleMiss") not in mo:
                io2 = [x if not (isinstance(x, Exc) and x.name.startswith("Unicode")) else Exc("UnicodeError") for x in io]
                if mo != io2:
                    bad = [i for i in range(6) if mo[i] != io2[i]]
                    res.violation("correspondence", "hostname helper models differ from implementation at positions %s" % bad, input=dict(string=u), impl=io, model=mo)
    # the three variant stem functions: model vs implementation (default options) x suffix_aware
    vs = strs[:1200] if tier == "quick" else strs
    for sa in (False, True):
        chunks = [vs[i:i + 300] for i in range(0, len(vs), 300)]
        outs = common.run_driver_parallel([("variant_stems", [env_for(*ch), sa, ch]) for ch in chunks], jobs=12)
        for ch, out in zip(chunks, outs):
            if not isinstance(out, list):
                continue
            for u, mo in zip(ch, out):
                res.evaluations += 1
                io = [call(canonicalized_lru_stems, u, suffix_aware=sa), call(normalized_lru_stems, u, suffix_aware=sa),
                      call(fingerprinted_lru_stems, u, suffix_aware=sa), call(fingerprinted_lru_stems, u, suffix_aware=sa, strip_suffix=True)]
                if isinstance(mo, list) and Exc("OracleMiss") not in mo:
                    io2 = [x if not (isinstance(x, Exc) and x.name.startswith("Unicode")) else Exc("UnicodeError") for x in io]
                    # a fingerprint that cannot be unpacked raises ValueError in both
                    if mo != io2:
                        bad = [i for i in range(4) if mo[i] != io2[i]]
                        res.violation("correspondence", "variant stems models differ from implementation at positions %s (0 canonicalized, 1 normalized, 2 fingerprinted, 3 fingerprinted+strip_suffix)" % bad,
                                      input=dict(string=u, suffix_aware=sa), impl=[io[i] for i in bad], model=[mo[i] for i in bad])
    for fid, text in sorted(hits.items()):
        res.known_hits.append((fid, text))
    res.nontrivial = nontriv
    res.rule = ("urls of the C01 grammar (with surrounding whitespace / control characters, wrapped in every redirect family infer_redirection knows: query keys, google /url?q=, ampproject, marfeel, youtube /redirect, relative targets, l.facebook.com) and bare hostnames (language labels, irrelevant subdomains, punycode, multi-label suffixes): "
                "get_normalized_hostname / get_fingerprinted_hostname vs the host of normalize_url / fingerprint_url (unsplit=False) x normalize_amp x infer_redirection x strip_suffix; "
                "bare-hostname forms; get_hostname vs the standard parser; the three stem variants vs lru_stems of the url-level result (minus the scheme stem) x suffix_aware; "
                "model vs implementation for the six helpers and the three variant stem functions. Non-trivial = urls with a host on which the first agreement holds.")
    res.sample(dict(hostname="fr-FR.facebook.com", fingerprint_hostname=call(fingerprint_hostname, "fr-FR.facebook.com", strip_suffix=True)))
    res.theorems = THEOREMS
