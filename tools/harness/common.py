# Shared machinery of the checks: value codec, driver, build, evidence, verdicts.
import fcntl
import glob
import hashlib
import json
import os
import random
import re
import subprocess
import sys
import time

VERIF = os.path.dirname(os.path.dirname(os.path.dirname(os.path.abspath(__file__))))
COQ = os.path.join(VERIF, "coq")
OCAML = os.path.join(VERIF, "ocaml")
DRIVER = os.path.join(OCAML, "driver")
REPO = os.environ.get("URAL_REPO", "/repo")
PY = "/venv/bin/python"

TRUSTED_BASE_COMMON = [
    "Coq 8.16.1 kernel (coqc); vm_compute used for computed side conditions and witnesses; no native_compute",
    "translator tools/gen.py (+ CPython re._parser) regenerating coq/Gen/*.v from /repo on every run",
    "extraction: ExtrOcamlBasic only (Extract Inductive bool/option/unit/list/prod/sumbool/sumor, Extract Inlined Constant andb/orb/negb...); numbers stay inductive; OCaml 4.13.1; ocaml/driver.ml",
    "correspondence harness (differential execution of extracted model vs /repo implementation), bounded by its generators",
    "CPython 3.12 semantics of str methods / urllib.parse / re as transcribed in coq/Py/*.v (modelled, tied by correspondence only)",
]


class Exc(object):
    """An exception class name as a value."""

    def __init__(self, name):
        self.name = name

    def __eq__(self, o):
        return isinstance(o, Exc) and o.name == self.name

    def __hash__(self):
        return hash(("Exc", self.name))

    def __repr__(self):
        return "Exc(%s)" % self.name


# ------------------------------------------------------------------ codec
def enc(v):
    if v is None:
        return "~"
    if v is True:
        return "T"
    if v is False:
        return "F"
    if isinstance(v, int):
        return "#%d" % v
    if isinstance(v, str):
        return '"' + ",".join(str(ord(c)) for c in v) + '"'
    if isinstance(v, bytes):
        return '"' + ",".join(str(c) for c in v) + '"'
    if isinstance(v, (list, tuple)):
        return "(" + " ".join(enc(x) for x in v) + ")"
    if isinstance(v, Exc):
        return "!" + enc(v.name)
    raise TypeError("cannot encode %r" % (v,))


_tok = re.compile(r'#-?\d+|"[^"]*"|\(|\)|~|T|F|!')


def dec(s):
    toks = _tok.findall(s)
    pos = [0]

    def val():
        t = toks[pos[0]]
        pos[0] += 1
        if t[0] == "#":
            return int(t[1:])
        if t[0] == '"':
            body = t[1:-1]
            return "".join(chr(int(x)) for x in body.split(",")) if body else ""
        if t == "(":
            out = []
            while toks[pos[0]] != ")":
                out.append(val())
            pos[0] += 1
            return out
        if t == "~":
            return None
        if t == "T":
            return True
        if t == "F":
            return False
        if t == "!":
            return Exc(val())
        raise ValueError(t)

    return val()


class _NoModel(object):
    """Stands for a model answer when the extracted model could not be built: the harness then only searches the
    implementation for an input on which the property itself fails (correspondence verdicts are dropped)."""

    def __iter__(self):
        # as a batch answer it stands for 'as many answers as asked' (harnesses zip it with their cases)
        return iter([self] * 5000)

    def __getitem__(self, i):
        return self

    def __len__(self):
        return 0

    def __bool__(self):
        return True

    def __eq__(self, o):
        return False

    def __ne__(self, o):
        return True

    def __hash__(self):
        return 0

    def __contains__(self, x):
        return False

    def __repr__(self):
        return "<no model>"


NOMODEL = _NoModel()
NO_DRIVER = False


def run_driver(requests, timeout=3600):
    """requests: list of (name, value). Returns list of decoded values."""
    if not requests:
        return []
    if NO_DRIVER:
        return [NOMODEL] * len(requests)
    data = "".join("%s\t%s\n" % (n, enc(v)) for n, v in requests)
    env = dict(os.environ)
    p = subprocess.run(
        ["bash", "-c", "ulimit -s unlimited 2>/dev/null; exec %s" % DRIVER],
        input=data.encode(),
        stdout=subprocess.PIPE,
        stderr=subprocess.PIPE,
        timeout=timeout,
        env=env,
    )
    lines = p.stdout.decode().split("\n")
    if lines and lines[-1] == "":
        lines.pop()
    if len(lines) != len(requests):
        raise RuntimeError(
            "driver returned %d lines for %d requests (rc=%s, stderr=%s)"
            % (len(lines), len(requests), p.returncode, p.stderr.decode()[-500:])
        )
    return [dec(l) for l in lines]


def run_driver_parallel(requests, jobs=8, timeout=3600):
    """Split a big batch over several driver processes."""
    from concurrent.futures import ThreadPoolExecutor

    if len(requests) < 2000 or jobs <= 1:
        return run_driver(requests, timeout)
    n = len(requests)
    size = (n + jobs - 1) // jobs
    chunks = [requests[i : i + size] for i in range(0, n, size)]
    with ThreadPoolExecutor(max_workers=jobs) as ex:
        outs = list(ex.map(lambda c: run_driver(c, timeout), chunks))
    res = []
    for o in outs:
        res.extend(o)
    return res


# ------------------------------------------------------------------ build
def sh(cmd, timeout=1800, cwd=None):
    p = subprocess.run(
        cmd, shell=True, cwd=cwd, stdout=subprocess.PIPE, stderr=subprocess.STDOUT, timeout=timeout
    )
    return p.returncode, p.stdout.decode(errors="replace")


class BuildLock(object):
    def __enter__(self):
        self.f = open(os.path.join(VERIF, ".build.lock"), "w")
        fcntl.flock(self.f, fcntl.LOCK_EX)
        return self

    def __exit__(self, *a):
        fcntl.flock(self.f, fcntl.LOCK_UN)
        self.f.close()


def v_files():
    out = []
    for d in ("Py", "Gen", "Ural", "Spec", "Proofs", "Properties", "Extract"):
        out.extend(sorted(glob.glob(os.path.join(COQ, d, "*.v"))))
    return [os.path.relpath(f, COQ) for f in out]


def write_if_changed(path, content):
    try:
        with open(path) as f:
            if f.read() == content:
                return False
    except IOError:
        pass
    os.makedirs(os.path.dirname(path), exist_ok=True)
    with open(path, "w") as f:
        f.write(content)
    return True


def regen():
    """Run the translator: /repo -> coq/Gen/*.v. Returns (ok, log)."""
    gen = os.path.join(VERIF, "tools", "gen.py")
    if not os.path.exists(gen):
        return True, "no translator yet"
    env = "PYTHONPATH=%s PYTHONHASHSEED=0" % REPO
    rc, out = sh("%s timeout 600 %s %s" % (env, PY, gen), timeout=700)
    return rc == 0, out


def prepare_makefile():
    files = v_files()
    proj = (
        "-Q . UV\n"
        "-arg -w -arg -notation-overridden,-deprecated-hint-without-locality,-deprecated-instance-without-locality,-extraction-reserved-identifier,-extraction-opaque-accessed\n"
        + "\n".join(files)
        + "\n"
    )
    changed = write_if_changed(os.path.join(COQ, "_CoqProject"), proj)
    if changed or not os.path.exists(os.path.join(COQ, "Makefile")):
        rc, out = sh("coq_makefile -f _CoqProject -o Makefile", cwd=COQ)
        if rc != 0:
            raise RuntimeError("coq_makefile failed: " + out)


def make(targets, timeout=3000):
    rc, out = sh(
        "timeout %d make -j16 %s 2>&1" % (timeout, " ".join(targets)), timeout=timeout + 60, cwd=COQ
    )
    return rc == 0, out


def build_driver():
    src = os.path.join(OCAML, "gen", "model.ml")
    stamp = os.path.join(OCAML, "driver.stamp")
    h = hashlib.sha256()
    for f in (src, os.path.join(OCAML, "driver.ml")):
        with open(f, "rb") as fh:
            h.update(fh.read())
    dig = h.hexdigest()
    if os.path.exists(DRIVER) and os.path.exists(stamp) and open(stamp).read() == dig:
        return True, "driver up to date"
    rc, out = sh(
        "timeout 600 ocamlfind ocamlopt -O3 -w -a -I gen gen/model.mli gen/model.ml driver.ml -o driver 2>&1",
        cwd=OCAML,
        timeout=700,
    )
    if rc == 0:
        with open(stamp, "w") as f:
            f.write(dig)
    return rc == 0, out


def cone(vfile):
    """Transitive UV dependencies of a .v file (paths relative to coq/)."""
    seen = []
    todo = [vfile]
    while todo:
        f = todo.pop()
        if f in seen:
            continue
        seen.append(f)
        try:
            txt = open(os.path.join(COQ, f)).read()
        except IOError:
            continue
        for m in re.finditer(r"From\s+UV\s+Require\s+(?:Import\s+|Export\s+)?((?:\w+(?:\.\w+)*\s+)*\w+(?:\.\w+)*)\s*\.(?=\s)", strip_comments(txt)):
            for mod in m.group(1).split():
                path = mod.replace(".", "/") + ".v"
                if os.path.exists(os.path.join(COQ, path)):
                    todo.append(path)
    return seen


FORBIDDEN = re.compile(
    r"\b(Admitted|admit|Axiom|Axioms|Parameter|Parameters|Conjecture|Abort All|bypass_check)\b|Unset\s+Guard|Unset\s+Positivity|Unset\s+Universe|type-in-type|Admit Obligations"
)


def strip_comments(txt):
    out = []
    depth = 0
    i = 0
    n = len(txt)
    while i < n:
        if txt.startswith("(*", i):
            depth += 1
            i += 2
        elif txt.startswith("*)", i) and depth > 0:
            depth -= 1
            i += 2
        else:
            if depth == 0:
                out.append(txt[i])
            i += 1
    return "".join(out)


def audit(files):
    """Count closed proofs and look for forbidden constructs in the given .v files."""
    qed = 0
    bad = []
    for f in files:
        txt = strip_comments(open(os.path.join(COQ, f)).read())
        # string literals may contain anything
        txt2 = re.sub(r'"[^"]*"', '""', txt)
        qed += len(re.findall(r"\b(Qed|Defined)\s*\.", txt2))
        for m in FORBIDDEN.finditer(txt2):
            bad.append("%s: %s" % (f, m.group(0)))
    return qed, bad


def build_for(prop, extra_targets=()):
    """Regenerate, build the proof cone of a property and the extracted model.
    Returns dict(proof_ok, model_ok, log, obligations, discharged, assumptions, forbidden)."""
    res = dict(proof_ok=False, model_ok=False, log="", obligations=0, discharged=0,
               assumptions="", forbidden=[], broken="")
    with BuildLock():
        ok, log = regen()
        res["regen_ok"] = ok
        res["log"] += log[-3000:]
        prepare_makefile()
        propv = "Properties/%s.v" % prop
        files = cone(propv)
        qed, bad = audit(files)
        res["obligations"] = qed
        res["forbidden"] = bad
        res["cone"] = files
        if ok:
            ok_m, log_m = make(["Extract/Extract.vo"])
            res["log"] += log_m[-3000:]
            if ok_m:
                ok_d, log_d = build_driver()
                res["log"] += log_d[-2000:]
                res["model_ok"] = ok_d
            else:
                res["broken"] = _first_error(log_m)
            ok_p, log_p = make(["Properties/%s.vo" % prop] + list(extra_targets))
            res["log"] += log_p[-3000:]
            if ok_p and not bad:
                rc, out = sh("timeout 900 coqc -Q . UV -w -all %s 2>&1" % propv, cwd=COQ, timeout=1000)
                res["assumptions"] = out
                if rc == 0:
                    res["proof_ok"] = True
                    res["discharged"] = qed
                else:
                    res["broken"] = _first_error(out)
            elif not ok_p:
                res["broken"] = _first_error(log_p)
            else:
                res["broken"] = "forbidden constructs: " + "; ".join(bad)
        else:
            res["broken"] = "translator (tools/gen.py) refused the source: " + log[-800:]
    return res


def _first_error(log):
    m = re.search(r'(File "[^"]+", line \d+[^\n]*\n(?:.*\n){0,12})', log)
    return (m.group(1) if m else log[-1200:]).strip()


def summarize_assumptions(out):
    """Print Assumptions output -> list of distinct axiom lines (or 'Closed')."""
    closed = out.count("Closed under the global context")
    axioms = sorted(set(re.findall(r"^([A-Za-z_][\w.']*)\s*:", out, re.M)))
    return closed, axioms


# ------------------------------------------------------------------ verdict / evidence
def load_known():
    p = os.path.join(VERIF, "known_findings.json")
    if not os.path.exists(p):
        return []
    return json.load(open(p))


class Result(object):
    def __init__(self, prop, tier, seed):
        self.prop = prop
        self.tier = tier
        self.seed = seed
        self.t0 = time.time()
        self.evaluations = 0
        self.nontrivial = set()
        self.samples = []
        self.rule = ""
        self.extra = {}
        self.violations = []  # dicts: kind ('property'|'correspondence'), what, input, impl, model
        self.known_hits = []  # (finding id, text)
        self.exhaustive = False
        self.theorems = []

    def violation(self, kind, what, **kw):
        if NO_DRIVER and kind != "property":
            return
        if len([v for v in self.violations if v["kind"] == kind]) < 40:
            d = dict(kind=kind, what=what)
            d.update(kw)
            self.violations.append(d)
        else:
            self.extra["violations_truncated"] = True

    def sample(self, s):
        if len(self.samples) < 8:
            self.samples.append(s)


def jsonable(x):
    if isinstance(x, Exc):
        return "Exc(%s)" % x.name
    if isinstance(x, (list, tuple)):
        return [jsonable(y) for y in x]
    if isinstance(x, dict):
        return {str(k): jsonable(v) for k, v in x.items()}
    if isinstance(x, bytes):
        return "bytes:" + x.hex()
    if isinstance(x, (str, int, float, bool)) or x is None:
        return x
    return repr(x)


def finish(res, build, level_note_extra=None):
    """Write evidence, print verdict lines, return exit code."""
    prop = res.prop
    wall = time.time() - res.t0
    closed, axioms = summarize_assumptions(build.get("assumptions", ""))
    viol_prop = [v for v in res.violations if v["kind"] == "property"]
    viol_corr = [v for v in res.violations if v["kind"] != "property"]
    if NO_DRIVER:
        viol_corr = []      # no model to compare with: only the property deciders on the implementation count
    exit_code = 0
    lines = []
    for fid, text in res.known_hits:
        lines.append("KNOWN-FINDING: property=%s %s" % (prop, text))
    replay_dir = os.path.join(VERIF, "replays", prop)
    replay_path = None

    def write_replay(payload):
        os.makedirs(replay_dir, exist_ok=True)
        n = 0
        while os.path.exists(os.path.join(replay_dir, "%d.json" % n)):
            n += 1
        path = os.path.join(replay_dir, "%d.json" % n)
        with open(path, "w") as f:
            json.dump(jsonable(payload), f, indent=1, ensure_ascii=True)
        return os.path.relpath(path, VERIF)

    if viol_prop:
        v = viol_prop[0]
        replay_path = write_replay(dict(property=prop, seed=res.seed, tier=res.tier, violation=v,
                                        others=viol_prop[1:10], correspondence=viol_corr[:5],
                                        proof_ok=build.get("proof_ok"), broken=build.get("broken")))
        lines.append("VIOLATION property=%s replay=%s" % (prop, replay_path))
        exit_code = 1
    elif viol_corr or not build.get("proof_ok") or not build.get("model_ok"):
        payload = dict(property=prop, seed=res.seed, tier=res.tier,
                       proof_ok=build.get("proof_ok"), model_ok=build.get("model_ok"),
                       broken_theorem_or_build=build.get("broken"),
                       correspondence=viol_corr[:10],
                       note="no input violating the property itself was found in the explored scope; "
                            "the property is no longer shown to hold because the item above no longer checks")
        replay_path = write_replay(payload)
        lines.append("VIOLATION property=%s replay=%s no-failing-input-found" % (prop, replay_path))
        exit_code = 1

    cov = dict(
        obligations=build.get("obligations", 0),
        discharged=build.get("discharged", 0),
        checker_cmd="cd coq && make Properties/%s.vo && coqc -Q . UV Properties/%s.v  (full .vo build; Print Assumptions captured)" % (prop, prop),
        trusted_base=TRUSTED_BASE_COMMON + (level_note_extra or []),
        print_assumptions=dict(closed_theorems=closed, axioms=axioms),
        theorems=res.theorems,
        proof_cone=build.get("cone", []),
        evaluations=res.evaluations,
        distinct_nontrivial=len(res.nontrivial),
        rule=res.rule,
        samples=jsonable(res.samples) or ["(none)"],
        exhaustive=res.exhaustive,
        known_findings_reproduced=[k[0] for k in res.known_hits],
    )
    cov.update(jsonable(res.extra))
    ev = dict(
        property_id=prop,
        tier=res.tier,
        seed=res.seed,
        level="proof",
        coverage=cov,
        assumptions=[
            "theorems are about the Gallina model; control flow is tied to /repo by differential execution only",
        ] + (level_note_extra or []),
        wall_s=round(wall, 2),
        violations=len(res.violations),
    )
    os.makedirs(os.path.join(VERIF, "evidence"), exist_ok=True)
    with open(os.path.join(VERIF, "evidence", "%s.json" % prop), "w") as f:
        json.dump(ev, f, indent=1, ensure_ascii=True)
    for l in lines:
        print(l)
    if exit_code == 0:
        print("OK property=%s tier=%s obligations=%d/%d evaluations=%d wall=%.1fs"
              % (prop, res.tier, cov["discharged"], cov["obligations"], res.evaluations, wall))
    else:
        if build.get("broken"):
            print("BROKEN: " + build["broken"][:1500])
    sys.stdout.flush()
    return exit_code
