# Shared by C03-C07: option sampling and model/implementation comparison for normalize_url / fingerprint_url.
from . import common
from .common import Exc
from .oracle_env import env_for, idna_decode
from .url_grammar import call

OPT_NAMES = ["sort_query", "strip_authentication", "strip_trailing_slash", "strip_index", "strip_protocol", "strip_irrelevant_subdomains",
             "strip_fragment", "normalize_amp", "fix_common_mistakes", "infer_redirection", "quoted"]
DEFAULTS = dict(sort_query=True, strip_authentication=True, strip_trailing_slash=True, strip_index=True, strip_protocol=True,
                strip_irrelevant_subdomains=True, strip_fragment="except-routing", normalize_amp=True, fix_common_mistakes=True,
                infer_redirection=True, quoted=False)


def random_opts(rng):
    o = {}
    for k in OPT_NAMES:
        if k == "strip_fragment":
            o[k] = rng.choice([True, False, "except-routing"])
        else:
            o[k] = rng.random() < 0.5
    return o


def enc_opts(o):
    out = []
    for k in OPT_NAMES:
        v = o[k]
        if k == "strip_fragment":
            out.append(0 if v is False else 1 if v is True else 2)
        else:
            out.append(bool(v))
    return out


def env_with_hosts(urls):
    """Oracle tables incl. whole-host idna lookups needed by tld / suffix helpers."""
    env = env_for(*urls)
    return env


def split_to_list(sp):
    if isinstance(sp, Exc) or isinstance(sp, str):
        return sp
    return [sp[0], sp[1], sp[2], sp[3], sp[4] or ""]


def compare_normalize(res, cases):
    """cases: list of (url, opts). Compares model and implementation (string and unsplit=False)."""
    from ural import normalize_url
    chunks = [cases[i:i + 300] for i in range(0, len(cases), 300)]
    outs = common.run_driver_parallel([("normalize", [env_for(*[c[0] for c in ch]), [[u, enc_opts(o)] for u, o in ch]]) for ch in chunks], jobs=12)
    miss = 0
    for ch, out in zip(chunks, outs):
        if not isinstance(out, list):
            continue
        for (u, o), mo in zip(ch, out):
            res.evaluations += 1
            got = call(normalize_url, u, **o)
            sp = split_to_list(call(normalize_url, u, unsplit=False, **o))
            if not isinstance(mo, list) or Exc("OracleMiss") in mo:
                miss += 1
                continue
            if mo[0] != got or mo[1] != sp:
                res.violation("correspondence", "normalize_url model differs from implementation", input=dict(url=u, options=o), impl=[got, sp], model=mo)
    res.extra["normalize_oracle_miss_skipped"] = res.extra.get("normalize_oracle_miss_skipped", 0) + miss
