# C08 — suffix / domain extraction follow the PSL algorithm: implementation vs an independent
# Python transcription of publicsuffix.org, vs the Coq spec `psl` (extracted) and the model.
import itertools

from . import common, regexcorr
from .common import Exc
from .oracle_env import env_for, idna_decode

THEOREMS = ["C08_walk_is_psl", "C08_bundled", "C08_psl_exception", "C08_psl_longest", "C08_psl_none",
            "C08_split_rejoin", "C08_domain_one_more", "C08_valid_tld_last_label"]
REGEXES = ["PROTOCOL_RE", "SPECIAL_HOSTS_RE"]


# ---- the property's oracle: publicsuffix.org algorithm over a rule list (strings) ----
def psl_len(rules, labels):
    """labels in domain order; returns suffix length or None."""
    host = labels[::-1]
    exc = []
    plain = []
    for r in rules:
        parts = r.split(".")[::-1]
        is_exc = parts[-1].startswith("!")
        if is_exc:
            parts = parts[:-1] + [parts[-1][1:]]
        if len(parts) > len(host):
            continue
        if all(p == "*" or p == h for p, h in zip(parts, host)):
            (exc if is_exc else plain).append(len(parts))
    if exc:
        return min(exc) - 1
    if plain:
        return max(plain)
    return None


def wf_py(rules):
    """Transcription of wf_rules (Proofs/SuffixTrieFacts.v): '*' / '!' only on the leftmost label, never '!*'."""
    for r in rules:
        labs = r.split(".")
        if any(l == "*" or l.startswith("!") for l in labs[1:]):
            return False
        if labs[0] == "!*":
            return False
    return True


def expected_from_len(labels, sl):
    if sl is None:
        return [None, None, None, False]
    l = len(labels)
    if sl == l:
        return [["", ".".join(labels)], ".".join(labels), ".".join(labels), True]
    off = max(1, l - sl)
    return [[".".join(labels[:off]), ".".join(labels[off:])], ".".join(labels[off:]), ".".join(labels[off - 1:]), True]


def impl_trie(rules):
    from ural.classes.suffix_trie import SuffixTrie

    t = SuffixTrie()
    for r in rules:
        t.add(r)
    return t


def call(f, *a):
    try:
        return f(*a)
    except Exception as e:  # noqa
        return Exc(type(e).__name__)


def observe(t, u):
    sp = call(t.split, u)
    if isinstance(sp, tuple):
        sp = list(sp)
    return [sp, call(t.extract_suffix, u), call(t.extract_domain_name, u), call(t.has_valid_domain_name, u)]


def small_rules(alpha):
    plain = [".".join(t) for d in (1, 2, 3) for t in itertools.product(alpha, repeat=d)]
    wild = ["*"] + ["*." + ".".join(t) for d in (1, 2) for t in itertools.product(alpha, repeat=d)]
    exc = ["!" + ".".join(t) for d in (2, 3) for t in itertools.product(alpha, repeat=d)]
    return plain + wild + exc


def run(res, tier, rng):
    import ural.tld as T
    import ural.tld_data as D

    # ---------------- A. arbitrary rule sets, exhaustive small scope ----------------
    rules_all = small_rules(["a", "b"])
    hosts = [list(t) for d in (1, 2, 3, 4) for t in itertools.product(["a", "b", "c"], repeat=d)]
    maxr = 2 if tier == "quick" else 3
    sets = []
    for k in range(0, maxr + 1):
        sets.extend(itertools.combinations(rules_all, k))
    if tier == "quick":
        # plus a seeded sample of 3- and 4-rule sets
        for _ in range(1000):
            sets.append(tuple(rng.sample(rules_all, rng.choice([3, 4]))))
    else:
        for _ in range(30000):
            sets.append(tuple(rng.sample(rules_all, rng.choice([4, 5]))))
    # corpus: the historical witnesses
    sets.insert(0, ("b", "*.a.b", "*.c.a.b"))
    sets.insert(0, ("b", "*.a.b", "!c.a.b", "!a.a.b"))
    sets.insert(0, ("*.b", "!a.b"))
    res.exhaustive = True
    reqs = []
    for rs in sets:
        reqs.append(("suffixtrie", [[[], []], list(rs), [".".join(h) for h in hosts]]))
        reqs.append(("psl", [list(rs), hosts]))
    outs = common.run_driver_parallel(reqs, jobs=12)
    nontriv = set()
    for i, rs in enumerate(sets):
        model = outs[2 * i]
        if outs[2 * i + 1] is common.NOMODEL:
            wf, spec = wf_py(rs), common.NOMODEL
        else:
            wf, spec = outs[2 * i + 1]
        t = impl_trie(rs)
        if len(rs) >= 2:
            nontriv.add(rs)
        for j, h in enumerate(hosts):
            res.evaluations += 1
            u = ".".join(h)
            io = observe(t, u)
            sl = psl_len(rs, h)
            exp = expected_from_len(h, sl)
            if wf and spec[j] != sl:
                res.violation("correspondence", "Coq psl spec differs from the Python PSL transcription (harness/spec bug)",
                              input=dict(rules=rs, host=u), model=spec[j], impl=sl)
            if io != exp and wf:
                res.violation("property", "SuffixTrie disagrees with the PSL algorithm",
                              input=dict(rules=list(rs), host=u), impl=io, expected=exp)
            elif io != model[j]:
                res.violation("correspondence", "SuffixTrie model differs from implementation",
                              input=dict(rules=list(rs), host=u), impl=io, model=model[j])
    res.extra["small_scope_rule_sets"] = len(sets)
    res.extra["small_scope_hosts"] = len(hosts)

    # ---------------- B. the bundled list ----------------
    rules = list(D.PUBLIC_SUFFIXES) + list(D.PRIVATE_SUFFIXES)
    # the transcription only needs the rules sharing the host's last label (a rule's last label is never '!x'; a bare
    # '*' rule would be kept under its own key)
    rules_by_last = {}
    for r_ in rules:
        rules_by_last.setdefault(r_.rsplit(".", 1)[-1], []).append(r_)
    cand = []
    frac = 0.04 if tier == "quick" else 1.0
    for r in rules:
        if rng.random() > frac:
            continue
        labs = r.split(".")
        # four bundled rules end with a dot ('xn--hebda8b.xn--4dbrk0ce.'): as rules they carry an empty label and match no
        # hostname (a hostname's trailing dot is not a label); as hosts they are the trailing-dot form of the name
        while labs and labs[-1] == "":
            labs = labs[:-1]
        if labs[0].startswith("!"):
            base = [labs[0][1:]] + labs[1:]
            cand.append(base)                 # the exception itself
            cand.append(["x"] + base)
            cand.append(labs[1:])             # its parent
        elif labs[0] == "*":
            cand.append(["zz"] + labs[1:])    # wildcard instantiated
            cand.append(["a", "zz"] + labs[1:])
            cand.append(labs[1:])
            cand.append(["*"] + labs[1:])
        else:
            cand.append(labs)
            cand.append(["foo"] + labs)
            cand.append(["bar", "foo"] + labs)
        for k in range(1, len(labs)):
            if not labs[k:][0].startswith(("!", "*")):
                cand.append(labs[k:])         # every proper suffix
    for _ in range(500 if tier == "quick" else 5000):
        pool = rng.choice(rules).replace("*", "w").replace("!", "").rstrip(".").split(".")
        cand.append([rng.choice(["a", "www", "zz"] + pool) for _ in range(rng.randint(1, 3))] + pool[-rng.randint(1, len(pool)):])
    # corpus
    cand = [["localhostcert", "net"], ["localhost", "daplie", "me"], ["x", "localhost", "daplie", "me"], ["127", "0", "0", "1", "nip", "io"], ["10", "0", "0", "1x", "com"],
            ["svc", "firenet", "ch"], ["kawasaki", "jp"], ["city", "kawasaki", "jp"], ["ck"], ["www", "ck"], ["a", "www", "ck"]] + cand
    forms = [lambda h: h, lambda h: h.upper(), lambda h: h + ".", lambda h: "http://" + h + "/a?b#c",
             lambda h: "https://user:pw@" + h + ":8080/", lambda h: "//" + h,
             # scheme-less and slash-less: query, fragment, port, userinfo directly after / before the host
             lambda h: h + "?x=1", lambda h: h + "#top", lambda h: h + ":8080", lambda h: "user@" + h, lambda h: h + "/p?q#f"]
    urls = []
    for i, labs in enumerate(cand):
        urls.append(forms[i % len(forms)](".".join(labs)))
    # the model (bundled trie) and the Coq spec on the same hosts
    chunks = [list(range(i, min(i + 400, len(cand)))) for i in range(0, len(cand), 400)]
    reqs = []
    for ch in chunks:
        us = [urls[i] for i in ch]
        # idna oracle: whole last labels and the url given as a tld
        extra = []
        for u in us:
            extra.append(u.lstrip(".").lower())
        env = env_for(*us)
        idna = dict((k, v) for k, v in env[0])
        for i in ch:
            last = cand[i][-1].lower()
            idna[last] = idna_decode(last)
            w = urls[i].lstrip(".").lower()
            idna[w] = idna_decode(w)
            # hostname as urlsplit sees it -> last label
            h = call(lambda x: __import__("ural.utils", fromlist=["x"]).safe_urlsplit(x).hostname, urls[i])
            if isinstance(h, str):
                ll = h.rsplit(".", 1)[-1].lstrip(".").lower()
                idna[ll] = idna_decode(ll)
        env = [[[k, v] for k, v in sorted(idna.items())], env[1]]
        reqs.append(("tld", [env, us]))
        reqs.append(("psl_bundled", [[x.lower() for x in cand[i]] for i in ch]))
    outs = common.run_driver_parallel(reqs, jobs=12)
    miss = 0
    for ci, ch in enumerate(chunks):
        mo = outs[2 * ci]
        sp = outs[2 * ci + 1]
        for k, i in enumerate(ch):
            res.evaluations += 1
            u = urls[i]
            labs = [x.lower() for x in cand[i]]
            sp_ = call(T.split_suffix, u)
            io = [[list(sp_) if isinstance(sp_, tuple) else sp_, call(T.SUFFIX_TRIE.extract_suffix, u), call(T.get_domain_name, u),
                   call(T.has_valid_suffix, u)], call(T.has_valid_tld, u), call(T.is_valid_tld, u)]
            sl = psl_len(rules_by_last.get(labs[-1], []) + rules_by_last.get("*", []), labs)
            exp = expected_from_len(labs, sl)
            nontriv.add(u)
            if sp is not common.NOMODEL and sp[k] != sl:
                res.violation("correspondence", "Coq psl spec (bundled) differs from the Python PSL transcription",
                              input=dict(host=labs), model=sp[k], impl=sl)
            if io[0] != exp:
                res.violation("property", "split_suffix / get_domain_name / has_valid_suffix disagree with the PSL algorithm over the bundled list",
                              input=dict(url=u), impl=io[0], expected=exp)
            else:
                m = mo[k]
                if Exc("OracleMiss") in m:
                    miss += 1
                    m = [m[0], io[1] if m[1] == Exc("OracleMiss") else m[1], io[2] if m[2] == Exc("OracleMiss") else m[2]]
                if m != io:
                    res.violation("correspondence", "tld model differs from implementation", input=dict(url=u), impl=io, model=m)
            # valid tld depends only on the last label, case-insensitively
            # (with a trailing dot the last label is the empty one)
            ll = "" if u.endswith(".") and "/" not in u else labs[-1]
            e1 = call(T.is_valid_tld, ll)
            if io[1] != e1 or call(T.is_valid_tld, ll.upper()) != e1 or call(T.has_valid_tld, "zz." + ll) != e1:
                res.violation("property", "has_valid_tld / is_valid_tld do not depend on the last label only", input=dict(url=u, last=ll),
                              impl=[io[1], e1, call(T.is_valid_tld, ll.upper()), call(T.has_valid_tld, "zz." + ll)])
    # punycode / IDN last labels next to labels of every spelling: the answer is that of the last label alone
    idn_tlds = [t for t in D.TLDS if t.startswith("xn--") or not t.isascii()]
    picks = rng.sample(idn_tlds, min(len(idn_tlds), 12 if tier == "quick" else 120)) + ["xn--fiqs8s", "xn--p1ai", "com", "notatld", "xn--zz"]
    for tld in picks:
        e1 = call(T.is_valid_tld, tld)
        for pre in ("faguoren", "b\xfccher", "xn--bcher-kva", "xn--zz", "B\xdcCHER", "a.b\xfccher.c", "xn--ii.www"):
            for form in (lambda h: h, lambda h: "http://" + h + "/a", lambda h: h.upper() if h.isascii() else h):
                u = form(pre + "." + tld)
                res.evaluations += 1
                got = call(T.has_valid_tld, u)
                if got != e1:
                    res.violation("property", "has_valid_tld does not depend on the last label only", input=dict(url=u, last=tld), impl=[got, e1])
    res.extra["bundled_hosts"] = len(cand)
    res.extra["oracle_miss_tolerated"] = miss
    n1 = regexcorr.run(res, rng, names=REGEXES, exh_len=3, nrand=300 if tier == "quick" else 3000)
    res.evaluations += n1
    res.nontrivial = nontriv
    res.rule = ("A: every rule set of <= %d rules (plus %s seeded larger sets) out of the 33 normal / wildcard / exception rules of 1-3 labels over {a,b}, "
                "x all 120 hostnames of depth <= 4 over {a,b,c}; implementation vs independent Python PSL transcription vs extracted Coq `psl` vs extracted model. "
                "B: bundled list (%d%% of the rules this run): rule as host, +1/+2 labels, wildcard instantiated, exception label and parent, every proper suffix, random "
                "label sequences; upper-case / trailing-dot / URL forms (scheme, '//', userinfo, port, and scheme-less hosts directly followed by '?', '#', ':port', '/'). Non-trivial = rule sets with >= 2 rules, and every bundled host."
                % (maxr, "1000" if tier == "quick" else "30000", int(frac * 100)))
    res.sample(dict(rules=list(sets[3]), host="a.b.c", observed=observe(impl_trie(sets[3]), "a.b.c")))
    res.sample(dict(url=urls[0], observed=[list(call(T.split_suffix, urls[0]) or []), call(T.get_domain_name, urls[0])]))
    res.sample(dict(url=urls[-1], observed=[list(call(T.split_suffix, urls[-1]) or []), call(T.get_domain_name, urls[-1])]))
    res.theorems = THEOREMS
