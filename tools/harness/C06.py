# C06 — fingerprint_url ignores case, port, language subdomain and optionally the suffix.
import re

from . import common
from .common import Exc
from .oracle_env import env_for
from .url_grammar import gen_su, gen_url, call
from .C04 import irrelevant_variants

THEOREMS = ['C06_no_scheme', 'C06_case_irrelevant', 'C06_of_lowered'] + ["(main statement: harness deciders on the implementation + model correspondence — partial)"]


def run(res, tier, rng):
    from ural import fingerprint_url
    from ural.data import ISO_3166_1_COUNTRIES_ALPHA_2 as ISO
    import ural.tld_data as D

    from .C08 import psl_len
    rules_by_tld = {}
    for r_ in list(D.PUBLIC_SUFFIXES) + list(D.PRIVATE_SUFFIXES):
        rules_by_tld.setdefault(r_.rstrip(".").rsplit(".", 1)[-1], []).append(r_)
    codes = sorted(ISO)
    suffixes = [s for s in D.PUBLIC_SUFFIXES if not s.startswith(("*", "!")) and s.isascii() and 1 <= s.count(".") + 1 <= 3]
    nontriv = set()
    cases_for_model = []
    n = 700 if tier == "quick" else 12000
    for i in range(n):
        base_suffix = rng.choice(["com", "fr", "co.uk", "org", "com.au"])
        name = rng.choice(["facebook", "lemonde", "example", "youtube", "x"])
        hosts = [name + "." + base_suffix, "blog." + name + "." + base_suffix]
        if i % 5 == 4:
            # a registrable name that is itself a (private) public suffix, or a bare multi-label suffix
            hosts = [rng.choice(["blogspot.com", "github.io", "uk.com", "co.uk", "x.blogspot.com", "x.github.io", "com.au", "127.0.0.1", "localhost", "[::1]", "192.168.0.12"])]
            name = hosts[0]
        su = gen_su(rng, hosts=hosts, schemes=("http://", "https://", ""))
        base = su.render()
        for ss in (False, True):
            for pa in (False, True):
                if pa and name in ("facebook", "youtube"):
                    continue        # platform-specific rewriting of platform urls is C19's subject
                fb = call(fingerprint_url, base, strip_suffix=ss, platform_aware=pa)
                if isinstance(fb, Exc):
                    res.violation("property", "fingerprint_url raised %s" % fb, input=dict(url=base, strip_suffix=ss, platform_aware=pa))
                    continue
                if not pa:
                    cases_for_model.append((base, ss))
                variants = [("irrelevant: " + nm, v) for nm, v in irrelevant_variants(su, rng)]
                # case flips of every component
                v = su.render()
                variants.append(("upper case", v.upper() if "%" not in v else "".join(c.upper() if rng.random() < 0.5 else c for c in v)))
                for p in (":1", ":80", ":443", ":8080", ":65535"):
                    w = su.copy(); w.port = p; variants.append(("port " + p, w.render()))
                import re as _re
                named = su.host.count(".") >= 1 and not _re.fullmatch(r"\[.*\]|[0-9.]+", su.host)   # a language label only goes when two labels remain after it
                fixed_codes = ["TV", "MY", "ID", "FM", "ME", "IT", "IO"]
                for k_ in range(4 if named else 0):
                    a, b = (rng.choice(codes), rng.choice(codes)) if k_ < 3 else (rng.choice(fixed_codes), rng.choice(codes))
                    for lab in (a.lower(), a, a.lower() + "-" + b, a + "-" + b.lower()):
                        w = su.copy(); w.host = lab + "." + su.host; variants.append(("language label " + lab, w.render()))
                items = su.query.split("&") if su.query else []
                for t in ("gl=FR", "hl=en", "GL=us", "hl"):
                    pos = rng.randrange(len(items) + 1)
                    w = su.copy(); w.query = "&".join(items[:pos] + [t] + items[pos:]); variants.append(("item " + t, w.render()))
                if ss:
                    for _ in range(3):
                        sfx = rng.choice(suffixes)
                        if not su.host.endswith("." + base_suffix) or i % 5 == 4:
                            break
                        w = su.copy(); w.host = su.host[: -len(base_suffix)] + sfx
                        # the swapped host must have exactly that suffix ('x' + '.se' is itself the public suffix 'x.se')
                        # ... and must not bring in a label that is itself irrelevant ('x.m.se': the 'm.' label goes, leaving the suffix 'x.se')
                        if any(re.fullmatch(r"www\d?|m|mobile|amp", lab) for lab in sfx.lower().split(".")):
                            continue
                        if psl_len(rules_by_tld.get(w.host.lower().rsplit(".", 1)[-1], []), w.host.lower().split(".")) != sfx.count(".") + 1:
                            continue
                        variants.append(("suffix swap " + sfx, w.render()))
                for nm, v in variants:
                    res.evaluations += 1
                    fv = call(fingerprint_url, v, strip_suffix=ss, platform_aware=pa)
                    if fv != fb:
                        res.violation("property", "fingerprint-irrelevant variation '%s' changes the fingerprint" % nm,
                                      input=dict(url=base, variant=v, strip_suffix=ss, platform_aware=pa), impl=[fb, fv])
                    else:
                        nontriv.add(v)
                # redirect-carrying urls: the letter case of the whole url is irrelevant there too
                if i % 4 == 0:
                    import urllib.parse as UP
                    tgt = UP.quote(base if "://" in base else "http://" + base, safe="")
                    for wrapper in ("http://r.com/?url=" + tgt, "https://www.google.com/url?sa=t&q=" + tgt, "http://r.com/login?next=" + tgt + "&x=1",
                                    "https://l.facebook.com/l.php?u=" + tgt + "&h=AT0"):
                        fw = call(fingerprint_url, wrapper, strip_suffix=ss, platform_aware=pa)
                        if not pa:
                            cases_for_model.append((wrapper, ss))
                        for flip in (wrapper.upper(), wrapper.swapcase(), "".join(c.upper() if rng.random() < 0.5 else c for c in wrapper)):
                            res.evaluations += 1
                            ff = call(fingerprint_url, flip, strip_suffix=ss, platform_aware=pa)
                            if ff != fw:
                                res.violation("property", "a case flip of a redirect-carrying url changes the fingerprint",
                                              input=dict(url=wrapper, variant=flip, strip_suffix=ss, platform_aware=pa), impl=[fw, ff])
                            else:
                                nontriv.add(flip)
                # shape: no scheme, userinfo, port
                sp = call(fingerprint_url, base, strip_suffix=ss, platform_aware=pa, unsplit=False)
                if not isinstance(sp, Exc):
                    import urllib.parse as U
                    whole = U.urlunsplit(sp)
                    if fb != (whole[2:] if sp.netloc else whole):
                        res.violation("property", "fingerprint_url's string result is not its unsplit=False result put back together", input=dict(url=base, strip_suffix=ss), impl=fb)
                    try:
                        bad = sp.scheme or sp.username is not None or sp.password is not None or sp.port is not None
                    except ValueError:
                        bad = True
                    if bad:
                        res.violation("property", "the fingerprint carries a scheme, userinfo or port", input=dict(url=base, strip_suffix=ss), impl=list(sp))
                # negative: a non-country label, or only two labels left, is kept
                w = su.copy(); w.host = "zz." + su.host
                if named and call(fingerprint_url, w.render(), strip_suffix=False) == call(fingerprint_url, base, strip_suffix=False) and "ZZ" not in ISO:
                    res.violation("property", "a label that is not a country code was stripped", input=dict(url=w.render()), impl=call(fingerprint_url, w.render()))
    # model vs implementation (also on the urls of the shared grammar: compositional hosts, table-driven query items)
    for _ in range(1500 if tier == "quick" else 30000):
        cases_for_model.append((gen_url(rng), rng.random() < 0.5))
    for u in ("/home", "home", "?q=1", "#/a", "a.com/login?next=%2Fhome", "/a/b/?c=1#d", "http:///a//b"):
        for ss in (False, True):
            cases_for_model.append((u, ss))
            res.evaluations += 1
            f = call(fingerprint_url, u, strip_suffix=ss)
            sp = call(fingerprint_url, u, strip_suffix=ss, unsplit=False)
            if not isinstance(sp, Exc) and not isinstance(f, Exc):
                import urllib.parse as U
                whole = U.urlunsplit(sp)
                if f != (whole[2:] if sp.netloc else whole):
                    res.violation("property", "fingerprint_url's string result is not its unsplit=False result put back together", input=dict(url=u, strip_suffix=ss), impl=f)
    chunks = [cases_for_model[i:i + 300] for i in range(0, len(cases_for_model), 300)]
    outs = common.run_driver_parallel([("fingerprint", [env_for(*[c[0] for c in ch]), [[u, ss] for u, ss in ch]]) for ch in chunks], jobs=12)
    for ch, out in zip(chunks, outs):
        if not isinstance(out, list):
            continue
        for (u, ss), mo in zip(ch, out):
            res.evaluations += 1
            got = call(fingerprint_url, u, strip_suffix=ss)
            sp = call(fingerprint_url, u, strip_suffix=ss, unsplit=False)
            sp = sp if isinstance(sp, Exc) else [sp[0], sp[1], sp[2], sp[3], sp[4] or ""]
            if isinstance(mo, list) and Exc("OracleMiss") not in mo and (mo[0] != got or mo[1] != sp):
                res.violation("correspondence", "fingerprint_url model differs from implementation", input=dict(url=u, strip_suffix=ss), impl=[got, sp], model=mo)
    res.nontrivial = nontriv
    res.rule = ("structured base urls on hosts name.suffix / blog.name.suffix x every fingerprint-irrelevant transformation (C04 family; case flips; ports 1, 80, 443, 8080, 65535; language labels "
                "'xx' / 'XX' / 'xx-YY' from the ISO-3166 table; gl / hl items at random positions; with strip_suffix a swap among bundled public suffixes of 1-3 labels) x strip_suffix x "
                "platform_aware; case flips of redirect-carrying urls (?url=, google /url?q=, ?next=, l.facebook.com); shape of the result (no scheme / userinfo / port); negative case (non-country label kept); model vs implementation. Non-trivial = variants equal to their base.")
    res.sample(dict(url="https://fr-FR.facebook.com:8080/A?hl=fr&b=1", fingerprint=call(fingerprint_url, "https://fr-FR.facebook.com:8080/A?hl=fr&b=1"),
                    with_suffix_stripped=call(fingerprint_url, "https://fr-FR.facebook.com:8080/A?hl=fr&b=1", strip_suffix=True)))
    res.theorems = THEOREMS
