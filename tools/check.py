#!/venv/bin/python
# Entry point: ./check Cxx --tier quick|thorough [--replay file] ; ./check --setup
import argparse
import importlib
import json
import os
import random
import sys
import time

sys.path.insert(0, os.path.dirname(os.path.abspath(__file__)))
from harness import common  # noqa

sys.path.insert(0, common.REPO)


def setup():
    t0 = time.time()
    with common.BuildLock():
        ok, log = common.regen()
        if not ok:
            print(log)
            print("translator failed")
            return 1
        common.prepare_makefile()
        ok, log = common.make(["all"], timeout=3400)
        print(log[-3000:])
        if not ok:
            print("coq build failed")
            return 1
        ok, log = common.build_driver()
        print(log[-2000:])
        if not ok:
            return 1
    print("setup ok in %.1fs" % (time.time() - t0))
    return 0


def main():
    ap = argparse.ArgumentParser()
    ap.add_argument("prop", nargs="?")
    ap.add_argument("--tier", default=os.environ.get("VERIF_TIER", "quick"))
    ap.add_argument("--replay")
    ap.add_argument("--setup", action="store_true")
    a = ap.parse_args()
    if a.setup:
        return setup()
    if not a.prop:
        ap.error("property id required")
    tier = a.tier if a.tier in ("quick", "thorough") else "quick"
    seed = int(os.environ.get("VERIF_SEED", "0") or 0)
    mod = importlib.import_module("harness.%s" % a.prop)
    res = common.Result(a.prop, tier, seed)
    build = common.build_for(a.prop)
    rng = random.Random(seed * 1000003 + 17)
    if os.environ.get("VERIF_TEST_NOMODEL"):      # development aid: exercise the implementation-only search
        build["model_ok"] = False
        build["broken"] = "VERIF_TEST_NOMODEL set"
    if build["model_ok"]:
        if a.replay:
            mod.replay(res, json.load(open(a.replay)), rng)
        else:
            mod.run(res, tier, rng)
    else:
        # the model no longer builds from the current source: search the implementation alone for an input on which
        # the property itself fails (the deciders that need no model), so that the report carries a replay if there is one
        common.NO_DRIVER = True
        try:
            mod.run(res, tier, rng)
            res.rule = "MODEL DID NOT BUILD - implementation-only search. " + (res.rule or "")
        except Exception as e:  # noqa
            res.rule = "model did not build; implementation-only search aborted: %r" % (e,)
    extra = getattr(mod, "TRUSTED_EXTRA", None)
    return common.finish(res, build, extra)


if __name__ == "__main__":
    sys.exit(main())
