#!/usr/bin/env python3
# Regenerates the machine-written blocks of DESIGN.md (between <!-- BEGIN x --> / <!-- END x --> markers):
# the table of fix: commits, of known findings and of seeded changes.  Development aid, not part of any check.
import glob
import json
import os
import re

V = os.path.dirname(os.path.dirname(os.path.abspath(__file__)))


def block_fixes():
    k = json.load(open(os.path.join(V, "known_findings.json")))
    out = ["| property | commit | what failed on the pinned tree |", "|---|---|---|"]
    for e in k:
        if e["status"] == "fixed":
            txt = e["line"].split(e["commit"], 1)[1].strip().replace("|", "\\|")
            out.append("| %s | `%s` | %s |" % (e["property"], e["commit"], txt))
    return "\n".join(out)


def block_known():
    k = json.load(open(os.path.join(V, "known_findings.json")))
    out = []
    for e in k:
        if e["status"] == "known":
            out.append("* **%s / %s** (class `%s`): %s\n  Observed: %s\n  Not repaired because: %s"
                       % (e["property"], e["id"], e["selector"].get("predicate"), e["selector"].get("doc"), e["observed"], e["why_not_fixed"]))
    return "\n".join(out)


def block_seeded():
    out = ["| change | what was changed | caught by | first report |", "|---|---|---|---|"]
    for d in sorted(glob.glob(os.path.join(V, "seeded", "*", "meta.json"))):
        m = json.load(open(d))
        n = os.path.basename(os.path.dirname(d))
        ex = m.get("replay_excerpt") or ""
        how, rep = "?", ex[:100]
        try:
            v = json.loads(ex)
            if isinstance(v, dict):
                how = "property decider (failing input replayed)" if v["kind"] == "property" else "model / implementation correspondence"
                rep = v["what"][:110]
            else:
                how = "proof / model build no longer checks"
                rep = str(v)[:110]
        except Exception:
            mk = re.search(r'"kind": "(\w+)"', ex)
            mw = re.search(r'"what": "([^"]*)', ex)
            if mk:
                how = "property decider (failing input replayed)" if mk.group(1) == "property" else "model / implementation correspondence"
                rep = (mw.group(1) if mw else ex)[:110]
        if not m.get("detected_by_check"):
            how = "MISSED"
        out.append("| %s | %s | %s | %s |" % (n, (m.get("summary") or "")[:170].replace("|", "\\|").replace("\n", " "), how, rep.replace("|", "\\|").replace("\n", " ")))
    return "\n".join(out)


def main():
    p = os.path.join(V, "DESIGN.md")
    s = open(p).read()
    for name, fn in (("FIXES", block_fixes), ("KNOWN", block_known), ("SEEDED", block_seeded)):
        s = re.sub(r"(<!-- BEGIN %s -->\n).*?(<!-- END %s -->)" % (name, name), lambda m: m.group(1) + fn() + "\n" + m.group(2), s, flags=re.S)
    open(p, "w").write(s)


if __name__ == "__main__":
    main()
