#!/bin/bash
# development aid: run every claimed check for some seeds / a tier; prints one line per run
# usage: tools/allpass.sh "<seeds>" <tier> [props...]
cd /verif
seeds=${1:-"1 2"}; tier=${2:-quick}; shift; shift
props=${@:-"C01 C02 C03 C04 C05 C06 C07 C08 C09 C10 C11 C12 C13 C14 C15 C16 C17 C18 C19 C20"}
for sd in $seeds; do for p in $props; do
  [ -f tools/harness/$p.py ] || continue
  out=$(VERIF_SEED=$sd timeout 14000 ./check $p --tier $tier 2>&1 | grep "^VIOLATION\|^OK\|^BROKEN" | head -2 | tr '\n' ' ' | cut -c1-220)
  echo "seed=$sd $p: $out"
done; done
