#!/usr/bin/env python3
# Regenerates MANIFEST.json from the table below (kept valid at all times).
import json, os
HERE = os.path.dirname(os.path.dirname(os.path.abspath(__file__)))

CLAIMED = {
 "C10": dict(
   text="Proof (Coq, closed under the global context, no axioms) that the TrieDict model refines a dictionary for every assignment history with no bound on length, alphabet or value type: get/getitem read the last assignment (empty key included, stored None distinct from absence), items/prefixes/values are exactly the graph of the dictionary with each key once, len is the number of keys, longest_matching_prefix_value is the value under the longest stored prefix. The model is tied to ural/classes/trie_dict.py by differential execution of the extracted model on exhaustive small histories and random long ones, all query methods compared.",
   note="Trusted: Coq kernel, extraction (ExtrOcamlBasic), OCaml driver, the correspondence harness (bounded by its generators). Python dict semantics abstracted to an association list in insertion order; object identity of the NULL sentinel abstracted to option.",
   technique="Coq refinement proof (trie -> finite map) + extracted-model differential correspondence",
   ref="6 C10"),
 "C09": dict(
   text="Proof (Coq, closed under the global context) for every add history with no bound on length or alphabet: match(url) is true exactly when some added hostname's label list is a whole-label suffix of the query host's (case-folded, punycode-decoded) label list; the answer depends only on the set of added hostnames; iteration yields exactly the minimal added hostnames, each once, and len is their number. Proved on the model of set_and_prune_if_shorter / longest_matching_prefix_value / tokenize_hostname; the model is tied to the code by differential execution (exhaustive add sequences over depth-3 hosts, all depth-4 queries in 5 URL forms; random realistic histories with upper case, punycode, IDN) and by leaf-level correspondence of urlsplit, the regexes and ural.utils.",
   note="Trusted: Coq kernel, translator (regex ASTs, Unicode tables), extraction, driver, correspondence harness. The idna codec is an oracle table (env) filled from CPython per case; str.lower is the generated full Unicode table (final-sigma rule not modelled). Special hosts (IP literals, localhost) are outside the property and only covered by correspondence.",
   technique="Coq invariant + abstraction proof (antichain trie = minimal covering set) + extracted-model differential correspondence",
   ref="6 C09"),
 "C08": dict(
   text="Proof (Coq, closed under the global context): for ANY rule list whose wildcard / exception markers sit on the leftmost label (checked by vm_compute for the regenerated bundled list of ~9,950 rules), the suffix length found by the trie walk equals the publicsuffix.org algorithm (`psl`: exception rule prevails and yields its parent, else longest matching rule with `*` matching exactly one label, no matching rule = no suffix) for every host, with no bound on the number or depth of rules; plus: the two halves of split_suffix re-join to the host, get_domain_name is the suffix plus exactly one label, has_valid_tld reads only the last label. Tie to the code: the extracted model, the extracted `psl` spec and an independent Python transcription of the PSL algorithm are compared with SuffixTrie / ural.tld on every small rule set x every host of depth <= 4 and on hosts derived from the bundled rules (rule, +1/+2 labels, wildcard instantiated, exceptions, proper suffixes; case / trailing dot / URL forms).",
   note="Trusted: Coq kernel (vm_compute for the bundled side conditions), translator (tld_data.py -> Gen/Psl.v as UTF-8 literals), extraction, driver, harness. The `private` flag is not modelled (no observable effect). idna codec as oracle table. Several simultaneously matching exception rules (absent from any PSL) resolve to the shortest, in spec and code alike.",
   technique="Coq proof: trie walk = PSL algorithm (induction over rules and labels) + computed side conditions on the regenerated list + differential correspondence",
   ref="6 C08"),
 "C14": dict(
   text="Proved in Coq for all strings (closed under the global context): safely_quote returns pure ASCII whose tokenisation is exactly the input's with every escape kept and every other character escaped unless unreserved or '/', hence decodes to the same bytes, and is idempotent; upper_quoted changes only the case of hex digits inside valid escapes (same bytes, idempotent); tokenisation is a bijection on well-formed token lists; the unsafe sets read from the source contain every delimiter / '%' / space the component requires (computed side condition, breaks when a table entry is dropped); the generated regex ASTs the model reads abstractly are pinned structurally. for the four safely_unquote_* proved for all strings: no raw space is ever left in the output and a string holding no '%' is returned unchanged but for its spaces. PARTIAL for the rest of the safely_unquote_* statement: the property formula (decider `unquote_ok` of Spec/C14.v: output re-tokenises into kept escapes and once-decoded characters, no delimiter / space / control created, same bytes) plus idempotence is evaluated, extracted, on the implementation's output for every string of <= 2 (quick) / 3 (thorough) tokens over the property's 42-token alphabet and random longer ones, and the faithful model is compared with the implementation on the same inputs; its for-all-strings proof is not finished.",
   note="Trusted: Coq kernel, translator, extraction, driver, harness. ASCII_RE / QUOTED_SPLIT_RE / QUOTED_RE / LOWERCASE_QUOTED_RE enter the model through their reading as maximal ASCII runs / valid-escape tokens (pinned by reflexivity lemmas on the generated ASTs and exercised by the regex correspondence). Lone surrogates are outside str scope (quote() raises on them).",
   technique="Coq proofs on a token model of percent-escapes + extracted property deciders run on implementation outputs + differential correspondence",
   ref="6 C14"),
 "C20": dict(
   text="Proved in Coq for all strings (closed under the global context): what PROTOCOL_RE.match accepts (<= 64 letters, optional ':', '//'), obtained from the generated regex AST through the verified regex metatheory (backtracking matcher sound and complete w.r.t. a declarative semantics; an anchored pattern is found at most once); strip_protocol removes exactly that prefix; for alphabetic protocols of 1..64 letters ensure_protocol and force_protocol are idempotent, force_protocol's result starts with 'p://', strip_protocol of either result equals strip_protocol of the input. force == ensure o strip is PARTIAL: proved under the guard 'what remains after stripping has no protocol' and refuted without it (known finding F-B1, class nested_protocol). Builders: format_url appends no '?' when nothing is retained and joins base and path by exactly one '/' (proved); that the query decodes back to the retained arguments, the fragment, URLFormatter default merging, add_query_argument / get_query_argument read-back and pathsplit are checked by parsing the implementation's result back (deciders in the harness) and by model-vs-implementation correspondence, not proved. Known finding F-B3 (bases that already carry a query / fragment).",
   note="Trusted: Coq kernel, translator (PROTOCOL_RE AST, pinned structurally), extraction, driver, harness. urllib.quote / unquote models tied by leaf correspondence. Argument values enter the model through their str() rendering computed by CPython (ints, floats).",
   technique="Coq proofs over the generated regex AST via a verified regex metatheory + differential correspondence + parse-back deciders",
   ref="6 C20"),
 "C15": dict(
   text="Proved in Coq for every string (closed under the global context) on the model of the loop: each inferred target is strictly shorter than the url (termination measure), so length(url)+1 passes always suffice — the explicit fuel is never exhausted and no exception other than an oracle-table miss can arise; the recursive result is a fixed point of both the recursive and the non-recursive form; the recursive form is exactly the iteration of the non-recursive one; every target is built from text literally present in the url ('https://' + suffix, or the percent-decoded value of a slice, possibly urljoin-ed or 'https://'-prefixed). PARTIAL on the runtime side: CPython's stack limit and wall-clock are not expressible in the model; the harness runs every call under a 2 s alarm and a recursion limit of 400, including a 1,200-level unencoded chain. Tie: model vs implementation on a redirect grammar (keys and look-alikes in query / path / fragment / userinfo / host position, nested and percent-encoded targets, AMP / Marfeel hosts), with fixed-point, iteration-agreement and embedded-target deciders on the implementation's outputs.",
   note="Trusted: Coq kernel, translator (OBVIOUS_REDIRECTS_RE, REDIRECTION_DOMAINS_RE ASTs), extraction, driver, harness; urllib urljoin / unquote models (leaf correspondence); ipaddress oracle for bracketed hosts.",
   technique="Coq termination / fixed-point proof on a fuelled loop model + differential correspondence under alarms",
   ref="6 C15"),
 "C11": dict(
   text="Proved in Coq (closed under the global context): an LRUTrie is a TrieDict keyed by the stems with empty path stems removed, so for every history of set / set_lru calls, with no bound on length, match / match_lru return the value under the longest stored key that is a prefix of the query's key (latest value wins, None when none), and len / iteration report each stored key once — corollaries of the C10 refinement. PARTIAL: (i) stems enter these theorems as given lists; their computation from urls is tied by correspondence (C12/C13); (ii) 'two urls with the same canonical / normalized / fingerprinted string are the same key in the variant tries' is checked on the implementation over pairs of spellings, not proved. Tie: extracted model vs LRUTrie vs a dictionary oracle on exhaustive short and random long histories, serialized and list LRUs, both suffix_aware settings.",
   note="Trusted: Coq kernel, translator, extraction, driver, harness; PSL trie for suffix_aware as in C08.",
   technique="Coq refinement (corollary of the TrieDict proof) + differential correspondence",
   ref="6 C11"),
 "C12": dict(
   text="PARTIAL. Proved in Coq: lru_to_url applied to the stems of a parsed url rebuilds exactly that url (urlunsplit of its components) for every parsed url without userinfo and with an ordinary host, every suffix trie, modulo the computed behaviour of the port splitter regex on the netloc (hypotheses shown satisfiable on a url with port, empty segments, query and fragment); a serialized LRU always ends with '|'; the two splitter regexes read from the source are pinned structurally (so an edit stops a named lemma); round trips computed inside Coq on concrete urls of every shape of the grammar. The lossless round trip (re-parse of lru_to_url(url_to_lru(u)) equals the components of u, LRU stability, unserialize o serialize and serialize o unserialize) is decided by re-parsing the implementation's output over the property's grammar (userinfo with / without / empty password, '@' inside, IPv4 / bracketed IPv6 with hex letters / localhost / trailing-dot / IDN hosts, ports, empty segments, empty and non-empty query and fragment, ':' '@' in path and query) x suffix_aware, and by model-vs-implementation correspondence on the same inputs; not proved for all urls.",
   note="Trusted: as C11; urlsplit / urlunsplit models (leaf correspondence). Five genuine defects of the pinned tree were repaired by fix: commits (empty user/password, '@' in userinfo, IPv6 ports with hex letters, trailing dot with suffix_aware).",
   technique="Coq model + computed side conditions + parse-back deciders + differential correspondence",
   ref="6 C12"),
 "C13": dict(
   text="PARTIAL. Proved in Coq: for parsed urls, a page with the same scheme and netloc as an ancestor (no userinfo, query or fragment on the ancestor) and a path extending the ancestor's by whole segments has the ancestor's stems as a prefix of its own, for every suffix trie and both suffix_aware settings; if the stems of u are a prefix of the stems of v then the serialized LRU of u is a string prefix of that of v (the '|' terminator), and cleaning empty path stems distributes over concatenation / is idempotent. That v lies under u exactly when u's cleaned stems are a prefix of v's is decided on all ordered pairs of a universe (3 scheme/port x 11 host chains incl. multi-label and private suffixes x 6 path chains x trailing slash x query / fragment), both directions, both suffix_aware settings, with the extracted model compared on every url; not proved for all urls.",
   note="Trusted: as C12.",
   technique="Coq lemmas on stem lists + exhaustive pair decider + differential correspondence",
   ref="6 C13"),
 "C16": dict(
   text="Proved in Coq for every string, oracle table and TLD table (closed under the global context): is_url is monotone over ALL pairs of its 16 configurations (any subset of require_protocol / tld_aware / allow_spaces_in_path / only_http_https relaxed keeps acceptance) — the regex part by language inclusion between the generated ASTs (URL_WITH_PROTOCOL_RE ⊆ URL_RE ⊆ RELAXED_URL_RE etc., decided structurally on the regenerated ASTs and proved sound through the regex metatheory: matcher sound + complete w.r.t. the declarative semantics); the answer ignores surrounding whitespace (strip idempotent); with tld_aware an accepted url has a valid TLD as last host label or a special host; every string yielded by urls_from_text matches URL_WITH_PROTOCOL_RE and is then accepted by is_url(require_protocol=True, only_http_https=False). Checked by harness, not proved: yielded strings are substrings in order of appearance without outer whitespace; urls_from_text never raises (the model is total by construction; the tie is correspondence). Tie: model vs implementation under all 16 configurations on a grammar of URL strings and near-misses, and on texts with ASCII / typographic punctuation and complete / truncated markdown links.",
   note="Trusted: Coq kernel, translator (five URL regex ASTs, TLD list, IRRELEVANT_PUNCTUATION), extraction, driver, harness. Case-insensitive matching beyond ASCII as read in Py/Regex.v (validated by the regex correspondence incl. U+212A, U+017F, U+0130, U+0131). idna oracle for TLD lookups.",
   technique="Coq language-inclusion proof on generated regex ASTs (verified regex metatheory) + differential correspondence",
   ref="6 C16"),
 "C18": dict(
   text="Proved in Coq (closed under the global context): the trie-based predicates (is_youtube_url, is_shortened_url, should_resolve) are true exactly when the url's hostname tokens are covered by (equal to or a whole-label subdomain of) a listed domain — instantiation of the C09 theorem at the generated lists — and read nothing but the hostname; every url flagged by is_shortened_url is flagged by should_resolve; a homepage path (bare shortener domain) is flagged by neither; is_homepage / could_be_html are functions of the path alone and get_hostname of the host alone; the pre-parsed form of the four regex predicates reads only the hostname; for their string forms, the four patterns end with ([/?#] | blanks-to-end) and look forward nowhere else (computed on the regenerated ASTs), hence — by a general theorem on regexes without lookahead — a positive answer is decided by the prefix of the url ending at the first '/', '?' or '#' after the host: no text of the path, query or fragment can change it. PARTIAL for is_facebook_url / is_twitter_url / is_instagram_url / is_telegram_url: that they are true exactly for whole-label subdomains of the site's domains, agree across the string / scheme-less / '//' / SplitResult forms and ignore userinfo / path / query / fragment decoys is decided by the harness against whole-label membership on every domain of the bundled lists in 9 look-alike variants x decoys x 5 input forms, and by model-vs-implementation correspondence; exact membership and the userinfo clause are not proved.",
   note="Trusted: Coq kernel, translator (11 regex ASTs, three domain lists, HOMEPAGE_PATHS, HTML_LIKE_EXTENSIONS), extraction, driver, harness; os.path.splitext transcription; idna oracle. Six genuine defects of the pinned tree (look-alike hosts, path / userinfo text deciding) were repaired by fix: commits.",
   technique="Coq instantiation of the hostname-trie theorem + structural non-interference lemmas + differential correspondence + membership decider",
   ref="6 C18"),
 "C01": dict(
   text="PARTIAL. The statement (the re-parsed result denotes the same resource: scheme, decoded userinfo, host up to case / IDNA, effective port, resolved decoded segments with trailing slash, decoded query items in order, decoded fragment) is decided by a resource decider applied to the implementation's output over the property's grammar x quoted x strip_fragment x default_protocol, and by correspondence of the extracted model with the implementation on the same inputs (string and unsplit=False). Proved in Coq: the effective port is never changed for any scheme and port; the string form is urlunsplit of the unsplit=False form; witnesses computed on the model. The unescaping clauses are C14's theorems / deciders. Proved in Coq as well: canonicalize_url raises nothing but the standard parser's ValueError; every component of the result is computed from the same component of the parsed url (scheme kept; netloc rebuilt from the unquoted userinfo, the decoded lower-cased host and the port minus the scheme's own default; query items kept in order, each unquoted / re-quoted; fragment dropped exactly when asked).",
   note='Trusted: Coq kernel, translator (regex ASTs, query tables, ISO codes, PSL), extraction, driver, harness; urllib / str models (leaf correspondence); idna / ipaddress oracles; platform_aware=True is exercised on the implementation only (the platform parsers are not in the model).',
   technique='Coq model + component lemmas + resource decider on re-parsed output + differential correspondence',
   ref='6 C01'),
 "C02": dict(
   text="PARTIAL. Idempotence, invariance under every spelling transformation of the statement (each alone on structured urls) and the four mode round trips are decided on the implementation and the model is compared on the same inputs. Proved in Coq: port dropping, escape upper-casing and safe quoting are idempotent; the six historical witnesses are fixed points on the model in both modes. Known finding F-C7 (class raw_unsafe): with a dangling '%' or a raw sub-delimiter the quoted-mode idempotence / mode round trip fail.",
   note='Trusted: Coq kernel, translator (regex ASTs, query tables, ISO codes, PSL), extraction, driver, harness; urllib / str models (leaf correspondence); idna / ipaddress oracles; platform_aware=True is exercised on the implementation only (the platform parsers are not in the model).',
   technique='Coq model + component lemmas + transformation decider + differential correspondence',
   ref='6 C02'),
 "C03": dict(
   text='PARTIAL. The composition equalities normalize(canonicalize(u)) = normalize(u), fingerprint(canonicalize(u)) = fingerprint(u), fingerprint(normalize(u)) = fingerprint(u) and the implication on colliding pairs (collision classes built from spellings and irrelevant variants) are decided on the implementation, x quoted x platform_aware x strip_suffix; the three models are tied by correspondence in C01 / C05 / C06. Proved: fingerprint_url factors through normalize_url of the lower-cased url. Known finding F-C7 applies to quoted=True.',
   note='Trusted: Coq kernel, translator (regex ASTs, query tables, ISO codes, PSL), extraction, driver, harness; urllib / str models (leaf correspondence); idna / ipaddress oracles; platform_aware=True is exercised on the implementation only (the platform parsers are not in the model).',
   technique='Coq model + collision-class decider + differential correspondence',
   ref='6 C03'),
 "C04": dict(
   text="PARTIAL. Invariance of normalize_url under every documented-irrelevant transformation (alone, plus C02 spellings, tracking items at random positions, all permutations of 2-4 items, '&amp;'), with default options and quoted=True, is decided on the implementation; model correspondence in C05. Proved in Coq: the order of query items is irrelevant (the query stage — per-item unquoting, filtering, quoting, then sorted() with an injective key — returns the same list for any two orderings of the same items: sorting with a total antisymmetric order forgets the input order); redirection inference is exactly a pre-step (normalize_url(u) = normalize_url(infer_redirection(u), infer_redirection=False) whenever the url parses).",
   note='Trusted: Coq kernel, translator (regex ASTs, query tables, ISO codes, PSL), extraction, driver, harness; urllib / str models (leaf correspondence); idna / ipaddress oracles; platform_aware=True is exercised on the implementation only (the platform parsers are not in the model).',
   technique='Coq model + query-order and pre-step theorems + transformation decider + differential correspondence',
   ref='6 C04'),
 "C05": dict(
   text="Proved in Coq for every url and every option setting: normalize_url never raises (the model's only abnormal outcome is an unanswered oracle question) and an unparseable url (parser or port ValueError) is returned unchanged; the query stage only deletes (every item of the normalized query is the unquoted, in quoted mode re-quoted, image of an input item the filters keep) and without sort_query keeps the items' order. PARTIAL: 'each other part of the result comes from the input' (host = input host minus whole irrelevant labels / 'amp-', non-default port kept, query a sub-list) and 'an option switched off preserves its part' are decided on the implementation over uniformly sampled option settings; the extracted model is compared with the implementation (string and unsplit=False) on the same cases.",
   note='Trusted: Coq kernel, translator (regex ASTs, query tables, ISO codes, PSL), extraction, driver, harness; urllib / str models (leaf correspondence); idna / ipaddress oracles; platform_aware=True is exercised on the implementation only (the platform parsers are not in the model).',
   technique='Coq totality proof + component deciders + differential correspondence over sampled option space',
   ref='6 C05'),
 "C06": dict(
   text="PARTIAL. Invariance of fingerprint_url under the fingerprint-irrelevant family (C04 family, case flips, ports, 'xx' / 'xx-YY' language labels from the generated ISO table, gl / hl items, suffix swaps among bundled public suffixes with strip_suffix) x strip_suffix x platform_aware (non-platform hosts), the shape of the result and the negative cases are decided on the implementation; extracted model compared on base urls. Proved: the fingerprint never carries a scheme.",
   note='Trusted: Coq kernel, translator (regex ASTs, query tables, ISO codes, PSL), extraction, driver, harness; urllib / str models (leaf correspondence); idna / ipaddress oracles; platform_aware=True is exercised on the implementation only (the platform parsers are not in the model).',
   technique='Coq model + transformation decider + differential correspondence',
   ref='6 C06'),
 "C07": dict(
   text="PARTIAL. Proved in Coq: get_normalized_hostname / get_fingerprinted_hostname are normalize_hostname / fingerprint_hostname applied to the host the standard parser sees after a scheme is ensured. That this is the host of normalize_url / fingerprint_url (unsplit=False), that the bare-hostname forms agree, that get_hostname is the parser's host and that the three stem variants are the stems of the url-level results are decided on the implementation; the six helper models are compared with the implementation.",
   note='Trusted: Coq kernel, translator (regex ASTs, query tables, ISO codes, PSL), extraction, driver, harness; urllib / str models (leaf correspondence); idna / ipaddress oracles; platform_aware=True is exercised on the implementation only (the platform parsers are not in the model).',
   technique='Coq model + unfolding theorems + agreement decider + differential correspondence',
   ref='6 C07'),
 "C17": dict(
   text="Proved in Coq for every document, base url, oracle tables and option setting (closed under the global context): each link yielded by links_from_html differs from the (canonicalized) base, comes from an href of the document accepted by should_follow_href, is that href when it carries its own scheme and urljoin(base, href) otherwise (scheme-relative '//host' hrefs included), is accepted by is_url(tld-aware, http(s) only) — hence is an absolute http(s) url — and is exactly canonicalize_url of the resolved href when canonicalize=True; with unique=True the output has no duplicates; the str patterns have the same AST and flags as their bytes twins (re.ASCII; pinned). PARTIAL: that urls_from_html yields the same urls for a str document and its utf-8 bytes, one per anchor tag (three quoting styles) outside script blocks in document order, stripped and unescaped, is decided over a document grammar (anchors, scripts, entities, non-ASCII, look-alike tags) and by model-vs-implementation correspondence for str and bytes.",
   note="Trusted: Coq kernel, translator (four HTML regex ASTs), extraction, driver, harness; html.unescape as an oracle table; utf-8 decoding model (leaf correspondence). One genuine defect repaired (str patterns were unicode-aware, bytes twins not).",
   technique="Coq proof of the filter chain (by induction over the hrefs) + document-grammar decider + differential correspondence",
   ref="6 C17"),
 "C19": dict(
   text="Proved in Coq for every string, oracle tables and option (closed under the global context): the route functions behind parse_youtube_url, parse_facebook_url, parse_twitter_url, parse_instagram_url, parse_telegram_url and parse_google_drive_url never raise (every positional access to a path segment or query value is guarded, so truncated routes give None: the model raises IndexError / KeyError exactly where the Python code would); the parsers raise nothing but the standard parser's ValueError; YouTube video / short ids, Instagram shortcodes and usernames and Telegram message ids inside a returned record satisfy the module's validators; the truncated routes of the statement compute to None; Google Drive records (except the file whose id is the segment 'pub') and YouTube users, channels by id and shorts parse back from the components of their canonical url (route level, for fields that are one clean path segment). PARTIAL: that re-parsing record.url (Facebook; Google Drive at url level) / normalize_youtube_url(u) gives the same record and that normalize_youtube_url is idempotent is decided by the harness over the route grammar of the quantifier on the implementation (four known findings: dot / empty segments, query metacharacters in Facebook ids, reserved YouTube channel names, the Drive id 'pub'), and the models of all 29 public functions of the six modules are compared with the implementation.",
   note="Trusted: Coq kernel, translator (regex ASTs, name blacklists, url templates), extraction, driver, harness. A ValueError raised because urllib's urlsplit rejects the string (unbalanced brackets) is the library-wide convention and counts as expected. Eleven genuine defects repaired (fix: commits).",
   technique="Coq proof of route totality, exception kinds and id validity + exhaustive route-grammar decider + differential correspondence",
   ref="6 C19"),
}

NOT_YET = {}
ALL = ["C%02d" % i for i in range(1, 21)]

def main():
    checks = []
    for pid in ALL:
        if pid not in CLAIMED:
            continue
        c = CLAIMED[pid]
        checks.append(dict(
            property_id=pid,
            quick_cmd="./check %s --tier quick" % pid,
            thorough_cmd="./check %s --tier thorough" % pid,
            evidence_file="evidence/%s.json" % pid,
            replay_cmd_template="./check %s --replay {path}" % pid,
            engine="coq-model+correspondence",
            level_claimed=dict(category="proof", text=c["text"], design_ref="DESIGN.md section " + c["ref"]),
            level_note=c["note"],
            technique=c["technique"],
        ))
    na = []
    for pid in ALL:
        if pid not in CLAIMED:
            na.append(dict(property_id=pid, reason=NOT_YET.get(pid, "not claimed in this revision: the Coq model and theorems for this property are not built yet (see DESIGN.md section 12, order of work); the technique applies, nothing is asserted until the check exists")))
    m = dict(
        version=1,
        setup_cmd="./check --setup",
        hooks=dict(guard="MEDIALAB_URAL_VERIF", enable="no hooks are needed: ural is pure Python and is imported from /repo's working tree (PYTHONPATH=/repo)",
                   baseline_off_cmd="cd /repo && /venv/bin/python -m pytest -ra -q -p no:cacheprovider --timeout=900 --continue-on-collection-errors",
                   source_commits=[], add_only=True),
        engines=[dict(name="coq-model+correspondence", path="check", serves_properties=sorted(CLAIMED),
                      kind_free_text="Coq 8.16.1 theorems about a Gallina model of ural (coq/), constants regenerated from /repo by tools/gen.py, extracted model run against the implementation by tools/harness/*.py")],
        checks=checks,
        notes="See DESIGN.md. known_findings.json lists genuine defects (fixed by 'fix:' commits in /repo, or recorded).",
        not_applicable=na,
    )
    with open(os.path.join(HERE, "MANIFEST.json"), "w") as f:
        json.dump(m, f, indent=1)
    print("claimed:", sorted(CLAIMED))

if __name__ == "__main__":
    main()
