#!/usr/bin/env python3
# Validate seeded changes (patch + demo) in a scratch worktree, then run the check against /repo with
# the patch applied, and record everything under /verif/seeded/<prop>_<n>/.
import json, os, shutil, subprocess, sys, time

def sh(cmd, cwd=None, timeout=3000):
    p = subprocess.run(cmd, shell=True, cwd=cwd, stdout=subprocess.PIPE, stderr=subprocess.STDOUT, timeout=timeout)
    return p.returncode, p.stdout.decode(errors="replace")

def main():
    src, prop = sys.argv[1], sys.argv[2]        # e.g. /tmp/seeded_C10 C10
    tier = sys.argv[3] if len(sys.argv) > 3 else "quick"
    wt = "/tmp/wt_verify_%s" % prop
    sh("git -C /repo worktree remove --force %s" % wt)
    rc, out = sh("git -C /repo worktree add -q --detach %s HEAD" % wt)
    assert rc == 0, out
    results = []
    try:
        for name in sorted(os.listdir(src)):
            d = os.path.join(src, name)
            patch = os.path.join(d, "patch.diff")
            if not os.path.exists(patch):
                continue
            rec = dict(source=d)
            rc, out = sh("git apply %s" % patch, cwd=wt)
            rec["applies"] = rc == 0
            rc, out = sh("/venv/bin/python -m pytest -q -p no:cacheprovider 2>&1 | tail -1", cwd=wt)
            rec["tests_with_patch"] = out.strip()
            rc1, o1 = sh("PYTHONPATH=%s timeout 120 /venv/bin/python %s/demo.py" % (wt, d))
            rec["demo_with_patch_rc"] = rc1
            sh("git checkout -- . && git clean -fdq", cwd=wt)
            rc2, o2 = sh("PYTHONPATH=%s timeout 120 /venv/bin/python %s/demo.py" % (wt, d))
            rec["demo_without_patch_rc"] = rc2
            rec["valid"] = rec["applies"] and "96 passed" in rec["tests_with_patch"] and rc1 != 0 and rc2 == 0
            # now the check against /repo
            rc, out = sh("git -C /repo status --porcelain")
            assert out.strip() == "", "repo not clean: " + out
            rc, out = sh("git -C /repo apply %s" % patch)
            t0 = time.time()
            try:
                rc, out = sh("cd /verif && ./check %s --tier %s" % (prop, tier))
            finally:
                sh("git -C /repo checkout -- . && git -C /repo clean -fdq")
            rec["check_rc"] = rc
            rec["check_wall_s"] = round(time.time() - t0, 1)
            rec["check_output"] = [l for l in out.split("\n") if l.startswith(("VIOLATION", "OK", "KNOWN", "BROKEN"))][:5]
            rec["detected"] = rc == 1 and any(l.startswith("VIOLATION") for l in rec["check_output"])
            # the replay the check wrote
            for l in rec["check_output"]:
                if l.startswith("VIOLATION"):
                    rp = l.split("replay=")[1].split()[0]
                    try:
                        r = json.load(open(os.path.join("/verif", rp)))
                        v = r.get("violation") or (r.get("correspondence") or [None])[0] or r.get("broken_theorem_or_build")
                        rec["replay_excerpt"] = json.dumps(v)[:600]
                    except Exception as e:
                        rec["replay_excerpt"] = "unreadable: %s" % e
            dest = os.path.join("/verif/seeded", "%s_%s" % (prop, name))
            os.makedirs(dest, exist_ok=True)
            shutil.copy(patch, os.path.join(dest, "patch.diff"))
            shutil.copy(os.path.join(d, "demo.py"), os.path.join(dest, "demo.py"))
            meta = {}
            try:
                meta = json.load(open(os.path.join(d, "meta.json")))
            except Exception:
                pass
            meta.update(dict(property=prop, validated=rec["valid"], what_i_ran=[
                "git apply patch.diff in a scratch worktree; pytest -> %s" % rec["tests_with_patch"],
                "demo.py with patch -> rc %d; without -> rc %d" % (rc1, rc2),
                "git -C /repo apply patch.diff; ./check %s --tier %s -> rc %d %s; git -C /repo checkout -- ." % (prop, tier, rec["check_rc"], rec["check_output"][:1]),
            ], detected_by_check=rec["detected"], replay_excerpt=rec.get("replay_excerpt")))
            json.dump(meta, open(os.path.join(dest, "meta.json"), "w"), indent=1)
            results.append(rec)
            print(name, "valid" if rec["valid"] else "INVALID", "DETECTED" if rec["detected"] else "MISSED", rec["check_output"][:1], rec.get("replay_excerpt", "")[:200])
            sys.stdout.flush()
    finally:
        sh("git -C /repo worktree remove --force %s" % wt)
    sh("rm -rf /verif/replays/%s" % prop)
    # the evidence file must describe the unchanged tree: rewrite it from a run on /repo as it is
    rc, out = sh("cd /verif && ./check %s --tier quick" % prop)
    print("evidence rewritten on the unchanged tree:", [l for l in out.split("\n") if l.startswith(("VIOLATION", "OK", "BROKEN"))][:1])

main()
