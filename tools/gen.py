#!/venv/bin/python
# Translator (T): /repo source -> coq/Gen/*.v.  Fail-closed: anything it does not
# recognise is an error, never a silent default.  Run with PYTHONPATH=/repo.
import ast
import hashlib
import importlib
import json
import os
import pkgutil
import re
import sys

import re._parser as P
import re._constants as C

HERE = os.path.dirname(os.path.dirname(os.path.abspath(__file__)))
GEN = os.path.join(HERE, "coq", "Gen")
REPO = os.environ.get("URAL_REPO", "/repo")
sys.path.insert(0, REPO)


class Refuse(Exception):
    pass


def write_if_changed(path, content):
    try:
        with open(path) as f:
            if f.read() == content:
                return False
    except IOError:
        pass
    os.makedirs(os.path.dirname(path), exist_ok=True)
    with open(path, "w") as f:
        f.write(content)
    return True


# ------------------------------------------------------------------ regex -> Coq
CATS = {
    C.CATEGORY_DIGIT: ("false", "CDigit"),
    C.CATEGORY_NOT_DIGIT: ("true", "CDigit"),
    C.CATEGORY_SPACE: ("false", "CSpace"),
    C.CATEGORY_NOT_SPACE: ("true", "CSpace"),
    C.CATEGORY_WORD: ("false", "CWord"),
    C.CATEGORY_NOT_WORD: ("true", "CWord"),
}


def check_cp(c, icase, where):
    if icase and c >= 0x80:
        raise Refuse("non-ASCII literal %#x under re.I in %s (case folding model covers ASCII literals only)" % (c, where))


def seq(items):
    if not items:
        return "Eps"
    out = items[-1]
    for it in reversed(items[:-1]):
        out = "(Seq %s %s)" % (it, out)
    return out


def tr_items(av, icase, where):
    neg = "false"
    out = []
    for op, a in av:
        if op is C.NEGATE:
            neg = "true"
        elif op is C.LITERAL:
            check_cp(a, icase, where)
            out.append("ILit %d" % a)
        elif op is C.RANGE:
            lo, hi = a
            if icase and hi >= 0x80 and (lo, hi) != (0xA1, 0xFFFF):
                raise Refuse("range %#x-%#x under re.I in %s not covered by the case folding model" % (lo, hi, where))
            out.append("IRange %d %d" % (lo, hi))
        elif op is C.CATEGORY:
            if a not in CATS:
                raise Refuse("category %s in %s" % (a, where))
            out.append("ICat %s %s" % CATS[a])
        else:
            raise Refuse("class item %s in %s" % (op, where))
    return neg, "[" + "; ".join(out) + "]"


def tr(sub, icase, where):
    items = []
    for op, av in sub:
        if op is C.LITERAL:
            check_cp(av, icase, where)
            items.append("(Lit %d)" % av)
        elif op is C.NOT_LITERAL:
            check_cp(av, icase, where)
            items.append("(NotLit %d)" % av)
        elif op is C.ANY:
            items.append("Any")
        elif op is C.IN:
            neg, its = tr_items(av, icase, where)
            items.append("(Cls %s %s)" % (neg, its))
        elif op is C.BRANCH:
            _, branches = av
            bs = [tr(b, icase, where) for b in branches]
            out = bs[-1]
            for b in reversed(bs[:-1]):
                out = "(Alt %s %s)" % (b, out)
            items.append(out)
        elif op is C.SUBPATTERN:
            group, add, dele, body = av
            if add or dele:
                raise Refuse("inline flags in %s" % where)
            b = tr(body, icase, where)
            items.append(b if group is None else "(Grp %d%%nat %s)" % (group, b))
        elif op is C.MAX_REPEAT:
            mn, mx, body = av
            if mn > 2000:
                raise Refuse("repeat minimum too large in %s" % where)
            mxs = "None" if mx is C.MAXREPEAT else "(Some %d%%nat)" % mx
            items.append("(Rep %s %d%%nat %s)" % (tr(body, icase, where), mn, mxs))
        elif op in (C.ASSERT, C.ASSERT_NOT):
            direction, body = av
            neg = "true" if op is C.ASSERT_NOT else "false"
            b = tr(body, icase, where)
            if direction == 1:
                items.append("(Ahead %s %s)" % (neg, b))
            else:
                lo, hi = body.getwidth()
                if (lo, hi) != (1, 1):
                    raise Refuse("look-behind of width != 1 in %s" % where)
                items.append("(Behind %s %s)" % (neg, b))
        elif op is C.AT:
            if av is C.AT_BEGINNING:
                items.append("Bol")
            elif av is C.AT_END:
                items.append("Eol")
            elif av is C.AT_BOUNDARY:
                items.append("WordB")
            else:
                raise Refuse("anchor %s in %s" % (av, where))
        else:
            raise Refuse("regex opcode %s in %s" % (op, where))
    return seq(items)


def collect_patterns():
    import ural

    mods = []
    for m in pkgutil.walk_packages(ural.__path__, "ural."):
        if m.name == "ural.__main__":
            continue
        mods.append(importlib.import_module(m.name))
    by_key = {}
    for m in mods:
        for k, v in sorted(vars(m).items()):
            if isinstance(v, re.Pattern):
                key = (v.pattern, v.flags)
                by_key.setdefault(key, []).append((m.__name__, k))
    # choose names: VAR when it denotes a single pattern, else <module>_VAR
    var_keys = {}
    for key, occ in by_key.items():
        for mod, var in occ:
            var_keys.setdefault(var, set()).add(key)
    named = {}
    for key, occ in by_key.items():
        names = set()
        for mod, var in occ:
            if len(var_keys[var]) == 1:
                names.add(var)
            else:
                names.add(mod.split(".")[-1] + "_" + var)
        for n in names:
            if n in named:
                raise Refuse("name clash for pattern %s" % n)
            named[n] = key
    return named, by_key


KNOWN_FLAGS = re.I | re.U | re.S | re.A


def gen_patterns():
    named, by_key = collect_patterns()
    out = [
        "(* GENERATED by tools/gen.py from the compiled patterns of /repo/ural — do not edit. *)",
        "From Coq Require Import List NArith String.",
        "Import ListNotations.",
        "From UV Require Import Py.Val Py.Regex.",
        "Local Open Scope N_scope.",
        "",
    ]
    listing = []
    for name in sorted(named):
        pat, flags = named[name]
        isbytes = isinstance(pat, bytes)
        if flags & ~KNOWN_FLAGS:
            raise Refuse("flags %r of %s not modelled" % (flags, name))
        icase = bool(flags & re.I)
        parsed = P.parse(pat, flags)
        body = tr(parsed, icase, name)
        ngroups = parsed.state.groups - 1
        out.append("(* %s  flags=%d %s *)" % (repr(pat).replace("*)", "* )").replace("(*", "( *").replace('"', "''"), flags, "bytes" if isbytes else "str"))
        out.append("Definition %s : re := %s." % (name, body))
        out.append(
            "Definition %s_f : rflags := {| icase := %s; uni := %s; dotall := %s |}."
            % (name, "true" if icase else "false", "false" if (isbytes or flags & re.A) else "true", "true" if flags & re.S else "false")
        )
        out.append("Definition %s_g : nat := %d." % (name, ngroups))
        out.append("")
        listing.append(dict(name=name, pattern=pat if not isbytes else pat.decode("latin1"), flags=flags, bytes=isbytes, groups=ngroups))
    # the textual building blocks of patterns.py, for structural lemmas
    import ural.patterns as UP

    for blk in ("PROTOCOL", "URL", "RESOURCE_PATH", "RELAXED_RESOURCE_PATH"):
        txt = getattr(UP, blk)
        parsed = P.parse(txt, re.I | re.U)
        out.append("Definition BLK_%s : re := %s." % (blk, tr(parsed, True, "BLK_" + blk)))
        out.append("")
    out.append("Definition all_patterns : list (str * (re * (rflags * nat))) := [")
    out.append(";\n".join('  (lit "%s"%%string, (%s, (%s_f, %s_g)))' % (n, n, n, n) for n in sorted(named)))
    out.append("].")
    write_if_changed(os.path.join(GEN, "Patterns.v"), "\n".join(out) + "\n")
    write_if_changed(os.path.join(GEN, "patterns.json"), json.dumps(listing, indent=1))
    return listing


def ranges_of(pred):
    out = []
    start = None
    for c in range(128, 0x110000):
        if pred(c):
            if start is None:
                start = c
        else:
            if start is not None:
                out.append((start, c - 1))
                start = None
    if start is not None:
        out.append((start, 0x10FFFF))
    return out


def gen_unicode():
    w = re.compile(r"\w")
    d = re.compile(r"\d")
    s = re.compile(r"\s")
    tables = {
        "uni_word": ranges_of(lambda c: w.match(chr(c)) is not None),
        "uni_digit": ranges_of(lambda c: d.match(chr(c)) is not None),
        "uni_space": ranges_of(lambda c: s.match(chr(c)) is not None),
        # str.isspace / str.strip() whitespace beyond ASCII
        "py_isspace": ranges_of(lambda c: chr(c).isspace()),
    }
    out = [
        "(* GENERATED by tools/gen.py from CPython's Unicode database (code points >= 128). *)",
        "From Coq Require Import List NArith.",
        "Import ListNotations.",
        "Local Open Scope N_scope.",
        "",
    ]
    for name, rs in tables.items():
        out.append("Definition %s : list (N * N) := [%s]." % (name, "; ".join("(%d, %d)" % r for r in rs)))
        out.append("")
    # full case mappings (str.lower / str.upper per character), chunked by c >> 8
    for name, fn in (("uni_lower", str.lower), ("uni_upper", str.upper)):
        chunks = {}
        for c in range(128, 0x110000):
            if 0xD800 <= c <= 0xDFFF:
                continue
            m = fn(chr(c))
            if m != chr(c):
                chunks.setdefault(c >> 8, []).append((c, [ord(x) for x in m]))
        body = ";\n  ".join(
            "(%d, [%s])" % (h, "; ".join("(%d, [%s])" % (c, "; ".join(map(str, m))) for c, m in ents))
            for h, ents in sorted(chunks.items())
        )
        out.append("Definition %s : list (N * list (N * list N)) := [\n  %s]." % (name, body))
        out.append("")
    # characters whose NFKC form contains a URL delimiter (urlsplit's _checknetloc)
    import unicodedata
    bad = [c for c in range(128, 0x110000) if not (0xD800 <= c <= 0xDFFF)
           and any(d in unicodedata.normalize("NFKC", chr(c)) for d in "/?#@:")]
    out.append("Definition nfkc_delim_chars : list N := [%s]." % "; ".join(map(str, bad)))
    out.append("")
    write_if_changed(os.path.join(GEN, "Unicode.v"), "\n".join(out) + "\n")


def main():
    if sys.version_info[:2] != (3, 12):
        raise Refuse("the stdlib models are pinned to CPython 3.12, found %s" % sys.version)
    gen_unicode()
    gen_patterns()
    tables = os.path.join(os.path.dirname(os.path.abspath(__file__)), "gen_tables.py")
    sys.path.insert(0, os.path.dirname(tables))
    if os.path.exists(tables):
        import gen_tables

        gen_tables.main(GEN, REPO, write_if_changed, Refuse)
    import gen_psl

    gen_psl.main(GEN, write_if_changed, Refuse)
    print("gen ok")


if __name__ == "__main__":
    try:
        main()
    except Refuse as e:
        print("TRANSLATOR REFUSED: %s" % e)
        sys.exit(2)
