# Tables of normalize_url / fingerprint_url -> Gen/Tables.v (called from gen_tables.py).  Fail-closed.
import ast
import importlib
import inspect


def emit(out, emit_strs, emit_str, Refuse, cps, strlist):
    NU = importlib.import_module("ural.normalize_url")
    FU = importlib.import_module("ural.fingerprint_url")
    D = importlib.import_module("ural.data")

    # key -> allowed values; the callable entry must be the recognised digit predicate
    combos = []
    for k, v in NU.IRRELEVANT_QUERY_COMBOS.items():
        if callable(v):
            probes = ["", "1", "12", "123", "a", "1a", "٣", None]
            want = [bool(x and len(x) <= 2 and all("0" <= c <= "9" for c in x)) for x in probes]
            got = [bool(v(x)) for x in probes]
            if got != want:
                raise Refuse("IRRELEVANT_QUERY_COMBOS[%r] is a callable that is not the recognised 'one or two ASCII digits' predicate" % k)
            combos.append((k, None))
        else:
            vals = sorted(v)
            if not all(isinstance(x, str) for x in vals):
                raise Refuse("IRRELEVANT_QUERY_COMBOS[%r] has non-string values" % k)
            combos.append((k, vals))

    def emit_combos(name, items):
        rows = []
        for k, vals in items:
            rows.append("(%s, %s)" % (cps(k), "None" if vals is None else "Some %s" % strlist(vals)))
        out.append("Definition %s : list (list N * option (list (list N))) := [%s]." % (name, ";\n  ".join(rows)))
        out.append("")

    emit_combos("IRRELEVANT_QUERY_COMBOS", combos)
    emit_combos("AMP_QUERY_COMBOS", [(k, sorted(v)) for k, v in NU.AMP_QUERY_COMBOS.items()])

    # per-domain filters: lambda k, v: k == "a" or k == "b" ...
    src = inspect.getsource(NU)
    tree = ast.parse(src)
    filters = None
    for node in tree.body:
        if isinstance(node, ast.Assign) and any(isinstance(t, ast.Name) and t.id == "PER_DOMAIN_QUERY_FILTERS" for t in node.targets):
            filters = node.value
    if not isinstance(filters, ast.List):
        raise Refuse("PER_DOMAIN_QUERY_FILTERS is not a list literal")
    rows = []
    for elt in filters.elts:
        if not (isinstance(elt, ast.Tuple) and len(elt.elts) == 2 and isinstance(elt.elts[0], ast.Constant) and isinstance(elt.elts[1], ast.Lambda)):
            raise Refuse("PER_DOMAIN_QUERY_FILTERS entry of unknown shape")
        lam = elt.elts[1]
        argnames = [a.arg for a in lam.args.args]
        if len(argnames) != 2:
            raise Refuse("per-domain filter lambda must take (k, v)")
        body = lam.body
        comps = body.values if isinstance(body, ast.BoolOp) and isinstance(body.op, ast.Or) else [body]
        keys = []
        for c in comps:
            if not (isinstance(c, ast.Compare) and isinstance(c.left, ast.Name) and c.left.id == argnames[0] and len(c.ops) == 1
                    and isinstance(c.ops[0], ast.Eq) and isinstance(c.comparators[0], ast.Constant) and isinstance(c.comparators[0].value, str)):
                raise Refuse("per-domain filter is not of the shape k == '...' or ...")
            keys.append(c.comparators[0].value)
        rows.append((elt.elts[0].value, keys))
    if [d for d, _ in rows] != [d for d, _ in NU.PER_DOMAIN_QUERY_FILTERS]:
        raise Refuse("PER_DOMAIN_QUERY_FILTERS source and runtime value disagree")
    out.append("Definition PER_DOMAIN_QUERY_FILTERS : list (list N * list (list N)) := [%s]." % ";\n  ".join("(%s, %s)" % (cps(d), strlist(ks)) for d, ks in rows))
    out.append("")
    emit_strs("LANG_QUERY_KEYS", list(FU.LANG_QUERY_KEYS))
    emit_strs("ISO_3166_1_COUNTRIES_ALPHA_2", sorted(D.ISO_3166_1_COUNTRIES_ALPHA_2))

    # ---- platform parsers (C19)
    YT = importlib.import_module("ural.youtube")
    TW = importlib.import_module("ural.twitter")
    IG = importlib.import_module("ural.instagram")
    FB = importlib.import_module("ural.facebook")
    GG = importlib.import_module("ural.google")
    emit_strs("YOUTUBE_CHANNEL_NAME_BLACKLIST", sorted(YT.YOUTUBE_CHANNEL_NAME_BLACKLIST))
    emit_strs("TWITTER_SCREEN_NAME_BLACKLIST", sorted(TW.TWITTER_SCREEN_NAME_BLACKLIST))
    emit_strs("INSTAGRAM_NOT_A_USER_SET", sorted(IG.INSTAGRAM_NOT_A_USER_SET))
    emit_strs("DRIVE_TYPES", list(GG.DRIVE_TYPES))
    emit_str("BASE_FACEBOOK_URL", FB.BASE_FACEBOOK_URL)
    # templates "prefix%s": the model appends the field to the prefix
    for name in ("YOUTUBE_VIDEO_URL_TEMPLATE", "YOUTUBE_USER_URL_TEMPLATE", "YOUTUBE_CHANNEL_ID_URL_TEMPLATE", "YOUTUBE_CHANNEL_NAME_URL_TEMPLATE", "YOUTUBE_SHORT_URL_TEMPLATE"):
        t = getattr(YT, name)
        if not (isinstance(t, str) and t.endswith("%s") and t.count("%") == 1):
            raise Refuse("%s is not of the shape 'prefix%%s'" % name)
        emit_str(name + "_PREFIX", t[:-2])
